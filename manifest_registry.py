# registry read by tools_gen_manifest.py
NA_COMMON = {
 'C10': 'oracle is an independent implementation of the crypto primitives; SoftHSM delegates them to OpenSSL (outside /repo, outside CBMC reach); the SoftHSM-side logic (mechanism mapping, size arithmetic) is claimed under C07/C12/C13 instead (DESIGN.md section 5)',
 'C15': 'quantifies over interleavings of several processes on a shared directory; a function contract speaks about one call in one address space (DESIGN.md section 5)',
 'C16': 'quantifies over crash points between file-system operations followed by recovery in a new process; contracts have no notion of a persisted partial execution (DESIGN.md section 5)',
 'C18': 'thread schedules: cbmc C++ front end has no thread support and DFCC contracts are sequential (DESIGN.md section 5)',
 'C20': 'relates four build configurations (file/db x OpenSSL/Botan); Botan and SQLite are not compiled in this image and a contract is checked against one translation unit (DESIGN.md section 5)',
}
NA.update(NA_COMMON)

CLAIMED['C01'] = (
 'Every obligation generated from the contracts of the functions that implement the access matrix is discharged for all argument values (all 2^64 session states, all flag values).',
 'Trusted: cbmc 6.11 C++ front end + DFCC, STL stubs, static binding with per-override contracts, environment definitions for collaborators; units listed in evidence; composition over call histories is by induction on paper.',
 'CBMC code contracts (goto-instrument --dfcc) on the real function text, sliced per run',
 'DESIGN.md 4/C01')

_NOTE = 'Trusted: cbmc 6.11 C++ front end + DFCC, STL stubs (executed, leak model), static binding with per-override contracts, environment definitions (ghost OSObject/Token/Session/HandleManager) for collaborators; functions under contract, cuts, normalisations and bounds are listed per unit in the evidence; composition over call histories is by induction on paper.'
_TECH = 'CBMC code contracts (goto-instrument --dfcc) on the real function text, sliced per run; native-twin replay of counterexamples'
CLAIMED['C02'] = ('Reveal guard, one-way protection flags and generic update rules are postconditions of the real P11Attribute::retrieve/update and of the P11Attr*::updateAttr overrides, discharged for all check masks, operations, flag values, byte values and buffer sizes (byte strings bounded, stated per unit).', _NOTE, _TECH, 'DESIGN.md 4/C02')
CLAIMED['C03'] = ('Derived session state (Session::getState/getInfo) is proved equal to the PKCS#11 function of the token login flags and the session R/W flag for all inputs; further units (SessionManager, Token login) listed in the evidence as they are added.', _NOTE, _TECH, 'DESIGN.md 4/C03')
CLAIMED['C07'] = ('Operation-start guards (usage flag, allowed-mechanism check, access matrix, operation gate) of the keyed *Init functions are postconditions of the real guard prefixes, discharged for all session states, object flags and mechanisms.', _NOTE, _TECH, 'DESIGN.md 4/C07')
CLAIMED['C08'] = ('The generic attribute rule engine P11Attribute::update and 23 boolean updateAttr overrides are proved against the PKCS#11 footnote rules for all check masks, operations and values.', _NOTE, _TECH, 'DESIGN.md 4/C08')
CLAIMED['C12'] = ('Operation gate of every keyed *Init (CKR_OPERATION_ACTIVE without effect), Session::resetOp, and the output-length protocol of P11Attribute::retrieve are discharged for all inputs.', _NOTE, _TECH, 'DESIGN.md 4/C12')

CLAIMED['C05'] = ('The scalar and byte-string codecs of File.cpp are proved against LITERAL format specifications (big-endian 8-byte fields, 0xFF/0x00 booleans, length-prefixed byte strings) over a ghost file with arbitrary content, including decode(encode(x)) = x; restart / golden-directory clauses are outside this family and not claimed.', _NOTE + ' libc stdio is a ghost file (env/stdio_ghost.c).', _TECH, 'DESIGN.md 4/C05')
CLAIMED['C09'] = ('SoftHSM::CreateObject (which serves C_CreateObject and every generate/unwrap/derive) is proved to destroy whatever it created on every failing path and to register exactly one handle on success; templates of <= 3 entries.', _NOTE, _TECH, 'DESIGN.md 4/C09')
CLAIMED['C11'] = ('HandleManager (issue, lookup, every purge) and SessionManager are proved over every table of bounded size built through the real add functions, with the witness handle ranging over all 64-bit values: exactly the affected handles die, all others keep working, handle numbers strictly increase.', _NOTE + ' Bounded tables (2 entries quick / 3 thorough), harness mode (no DFCC frame check) for container-holding units.', _TECH, 'DESIGN.md 4/C11')
CLAIMED['C13'] = ('PKCS#7 pad/unpad and the RFC 3394 zero pad are proved (format, inverse, rejection of malformed blobs, memory safety) for all blobs of 0..32 bytes and both block sizes; primitive outputs (AES key wrap, RSA, ECDH) are assumed.', _NOTE, _TECH, 'DESIGN.md 4/C13')
CLAIMED['C17'] = ('Memory safety and allocation-request obligations for the parsing / length-arithmetic units only (File codecs over arbitrary file content, pad/unpad, P11Attribute::retrieve copy-out, symmetric size arithmetic); the whole-library claim of the property is not made.', _NOTE, _TECH, 'DESIGN.md 4/C17')
