# registry read by tools_gen_manifest.py
NA_COMMON = {
 'C10': 'oracle is an independent implementation of the crypto primitives; SoftHSM delegates them to OpenSSL (outside /repo, outside CBMC reach); the SoftHSM-side logic (mechanism mapping, size arithmetic) is claimed under C07/C12/C13 instead (DESIGN.md section 5)',
 'C15': 'quantifies over interleavings of several processes on a shared directory; a function contract speaks about one call in one address space (DESIGN.md section 5)',
 'C16': 'quantifies over crash points between file-system operations followed by recovery in a new process; contracts have no notion of a persisted partial execution (DESIGN.md section 5)',
 'C18': 'thread schedules: cbmc C++ front end has no thread support and DFCC contracts are sequential (DESIGN.md section 5)',
 'C20': 'relates four build configurations (file/db x OpenSSL/Botan); Botan and SQLite are not compiled in this image and a contract is checked against one translation unit (DESIGN.md section 5)',
}
NA.update(NA_COMMON)

CLAIMED['C01'] = (
 'Every obligation generated from the contracts of the functions that implement the access matrix is discharged for all argument values (all 2^64 session states, all flag values).',
 'Trusted: cbmc 6.11 C++ front end + DFCC, STL stubs, static binding with per-override contracts, environment definitions for collaborators; units listed in evidence; composition over call histories is by induction on paper.',
 'CBMC code contracts (goto-instrument --dfcc) on the real function text, sliced per run',
 'DESIGN.md 4/C01')
