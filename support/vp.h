/* vp.h - shared by every contract.c (C) and wrap.cpp (C++), in both build modes.
 *
 *   CBMC mode   : goto-cc, contracts are live, VP_NATIVE undefined.
 *   native mode : g++/gcc -DVP_NATIVE, contract clauses are erased by the macros below and
 *                 re-materialised as executable checks by engine/replaygen.py.
 */
#ifndef VP_H
#define VP_H

#ifdef __cplusplus
#define VP_EXTERN_C extern "C"
#define VP_C_BEGIN extern "C" {
#define VP_C_END }
#else
#define VP_EXTERN_C
#define VP_C_BEGIN
#define VP_C_END
#endif

/* native twin flavours: VP_NATIVE_DYN = real headers, real virtual dispatch, environment classes are real subclasses;
 * VP_NATIVE_STATIC = the mirrored headers (N2) with -Dvirtual= like the cbmc build: environment objects are raw storage
 * and calls bind statically to the environment definitions (units whose collaborators are concrete library classes) */
#if defined(VP_NATIVE) && !defined(VP_NATIVE_STATIC)
#define VP_NATIVE_DYN 1
#endif
#ifdef VP_NATIVE
/* contract clauses vanish natively */
#define __CPROVER_requires(...)
#define __CPROVER_ensures(...)
#define __CPROVER_assigns(...)
#define __CPROVER_frees(...)
#define __CPROVER_assume(x) ((void)0)
#define __CPROVER_assert(x, msg) ((void)0)
#define __CPROVER_cover(x) ((void)0)
#define VP_COVER(x) ((void)0)
#else
/* reachability canary (vacuity guard): an assertion that MUST FAIL.  goto-instrument --dfcc treats
 * __CPROVER_cover as an undefined function, so the canary is the negated condition as an ordinary
 * assertion; the classifier demands status FAILURE for every "VP_CANARY" and never counts it as an
 * obligation. */
#define VP_COVER(x) __CPROVER_assert(!(x), "VP_CANARY " #x)
#endif

/* a standard container that lives in raw storage (environment objects are never constructed): the array-backed stubs
 * are initialised by clearing their fill count, the real libstdc++ container of the native twin by placement new */
#ifdef __cplusplus
#ifdef VP_NATIVE
#include <new>
template<class C> static inline void vp_init_container(C& c) { new ((void*)&c) C(); }
#define VP_INIT_CONTAINER(c) vp_init_container(c)
#else
#define VP_INIT_CONTAINER(c) ((c).clear())   /* list, set, map stubs: clear() only resets the fill state */
#endif
#endif

/* an environment object the code under contract may `delete`: raw, never constructed; natively it comes from operator
 * new (ASan pairs allocation and deallocation functions) and is zero-filled */
#ifdef __cplusplus
#ifdef VP_NATIVE
#include <string.h>
#define VP_RAW_NEW(T) ((T*)memset(::operator new(sizeof(T)), 0, sizeof(T)))
#else
#define VP_RAW_NEW(T) ((T*)malloc(sizeof(T)))
#endif
#endif

/* byte vectors (ByteString::byteString) in environment code: the stub keeps a symbolic length next to an inline array,
 * the native twin's real vector is resized (lengths beyond 4096 are clamped natively: stated imprecision of the twin) */
#ifdef __cplusplus
#ifdef VP_NATIVE
#define VP_BV_SET_LEN(v, len) ((v).resize((size_t)(len) < 4096 ? (size_t)(len) : 4096))
#define VP_BV_AT(v, i) ((v)[i])
#define VP_BV_ROOM(v, i) ((size_t)(i) < (v).size())
#else
#define VP_BV_SET_LEN(v, len) ((v).n = (len))
#define VP_BV_AT(v, i) ((v).d[i])
#define VP_BV_ROOM(v, i) (1)
#endif
#endif

/* PKCS#11 types and the CK* constants of the standard come from the (mirrored) standard header */
#include "cryptoki.h"
#ifndef __cplusplus
#define VP_BOOL _Bool
#else
#define VP_BOOL bool
#endif

#endif
