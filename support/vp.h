/* vp.h - shared by every contract.c (C) and wrap.cpp (C++), in both build modes.
 *
 *   CBMC mode   : goto-cc, contracts are live, VP_NATIVE undefined.
 *   native mode : g++/gcc -DVP_NATIVE, contract clauses are erased by the macros below and
 *                 re-materialised as executable checks by engine/replaygen.py.
 */
#ifndef VP_H
#define VP_H

#ifdef __cplusplus
#define VP_EXTERN_C extern "C"
#define VP_C_BEGIN extern "C" {
#define VP_C_END }
#else
#define VP_EXTERN_C
#define VP_C_BEGIN
#define VP_C_END
#endif

/* native twin flavours: VP_NATIVE_DYN = real headers, real virtual dispatch, environment classes are real subclasses;
 * VP_NATIVE_STATIC = the mirrored headers (N2) with -Dvirtual= like the cbmc build: environment objects are raw storage
 * and calls bind statically to the environment definitions (units whose collaborators are concrete library classes) */
#if defined(VP_NATIVE) && !defined(VP_NATIVE_STATIC)
#define VP_NATIVE_DYN 1
#endif
#ifdef VP_NATIVE
/* contract clauses vanish natively */
#define __CPROVER_requires(...)
#define __CPROVER_ensures(...)
#define __CPROVER_assigns(...)
#define __CPROVER_frees(...)
#define __CPROVER_assume(x) ((void)0)
#define __CPROVER_assert(x, msg) ((void)0)
#define __CPROVER_cover(x) ((void)0)
#define VP_COVER(x) ((void)0)
#else
/* reachability canary (vacuity guard): an assertion that MUST FAIL.  goto-instrument --dfcc treats
 * __CPROVER_cover as an undefined function, so the canary is the negated condition as an ordinary
 * assertion; the classifier demands status FAILURE for every "VP_CANARY" and never counts it as an
 * obligation. */
#define VP_COVER(x) __CPROVER_assert(!(x), "VP_CANARY " #x)
#endif

/* PKCS#11 types and the CK* constants of the standard come from the (mirrored) standard header */
#include "cryptoki.h"
#ifndef __cplusplus
#define VP_BOOL _Bool
#else
#define VP_BOOL bool
#endif

#endif
