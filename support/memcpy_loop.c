/* memcpy as a plain byte loop (opt-in per unit through env_c).  cbmc 6.11's built-in memcpy model
 * (__CPROVER_array_copy / __CPROVER_array_replace) copies only the first byte correctly when the length is symbolic and
 * the source is an array member in the interior of an object (probe: /verif/DESIGN.md F19); the bytes behind it become
 * unconstrained, which is sound but makes "the output buffer holds exactly these bytes" clauses fail spuriously.  The
 * loop is closed by the unit's unwinding bound (with unwinding assertions). */
#include <stddef.h>
void *memcpy(void *dst, const void *src, size_t n)
{
  for (size_t i = 0; i < n; i++) ((unsigned char *)dst)[i] = ((const unsigned char *)src)[i];
  return dst;
}
