/* support.c - linked into every CBMC unit.
 *
 * goto-instrument --dfcc does not link cbmc's C++ support library; an undefined callee is turned
 * into assert(false);assume(false) and everything behind the first `new` would become vacuous.
 * These four definitions close that hole (DESIGN.md appendix A).  Allocation never fails here:
 * out-of-memory behaviour is outside every contract in /verif (listed as an assumption).
 */
#include <stdlib.h>

void *__new(__CPROVER_size_t malloc_size)
{
  void *p = malloc(malloc_size);
  __CPROVER_assume(p != 0);
  return p;
}

void *__new_array(__CPROVER_size_t count, __CPROVER_size_t size)
{
  void *p = malloc(count * size);
  __CPROVER_assume(p != 0);
  return p;
}

void __delete(void *ptr) { free(ptr); }
void __delete_array(void *ptr) { free(ptr); }

