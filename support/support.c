/* support.c - linked into every CBMC unit.
 *
 * goto-instrument --dfcc does not link cbmc's C++ support library; an undefined callee is turned
 * into assert(false);assume(false) and everything behind the first `new` would become vacuous.
 * These four definitions close that hole (DESIGN.md appendix A).  Allocation never fails here:
 * out-of-memory behaviour is outside every contract in /verif (listed as an assumption).
 */
#include <stdlib.h>

void *__new(__CPROVER_size_t malloc_size)
{
  void *p = malloc(malloc_size);
  __CPROVER_assume(p != 0);
  return p;
}

void *__new_array(__CPROVER_size_t count, __CPROVER_size_t size)
{
  void *p = malloc(count * size);
  __CPROVER_assume(p != 0);
  return p;
}

void __delete(void *ptr) { free(ptr); }
void __delete_array(void *ptr) { free(ptr); }


#ifdef VP_MEMLOOPS
/* (opt-in) Byte-loop definitions of the mem* functions.  cbmc's built-in models copy through an array of symbolic
 * size, which made every unit that copies a byte string of symbolic length explode (13M variables for
 * P11Attribute::retrieve); an explicit loop is closed by unwinding up to the unit's stated byte bound, with
 * unwinding assertions on (a longer copy than the bound is INCONCLUSIVE, never silently cut). */
void *memcpy(void *dst, const void *src, __CPROVER_size_t n)
{
  for (__CPROVER_size_t i = 0; i < n; i++) ((unsigned char *)dst)[i] = ((const unsigned char *)src)[i];
  return dst;
}

void *memmove(void *dst, const void *src, __CPROVER_size_t n)
{
  if ((const unsigned char *)src < (unsigned char *)dst && __CPROVER_same_object(dst, src))
    for (__CPROVER_size_t i = n; i > 0; i--) ((unsigned char *)dst)[i - 1] = ((const unsigned char *)src)[i - 1];
  else
    for (__CPROVER_size_t i = 0; i < n; i++) ((unsigned char *)dst)[i] = ((const unsigned char *)src)[i];
  return dst;
}

void *memset(void *s, int c, __CPROVER_size_t n)
{
  for (__CPROVER_size_t i = 0; i < n; i++) ((unsigned char *)s)[i] = (unsigned char)c;
  return s;
}

int memcmp(const void *a, const void *b, __CPROVER_size_t n)
{
  for (__CPROVER_size_t i = 0; i < n; i++)
  {
    unsigned char x = ((const unsigned char *)a)[i], y = ((const unsigned char *)b)[i];
    if (x != y) return x < y ? -1 : 1;
  }
  return 0;
}
#endif
