/* native_static_prelude.h - pre-included in every C++ translation unit of a VP_NATIVE_STATIC twin: the standard
 * library headers are parsed with the real `virtual`, the project headers (mirror, N2) afterwards without it. */
#ifndef VP_NATIVE_STATIC_PRELUDE_H
#define VP_NATIVE_STATIC_PRELUDE_H
#ifdef __cplusplus
#include <string>
#include <vector>
#include <list>
#include <map>
#include <set>
#include <queue>
#include <memory>
#include <algorithm>
#include <utility>
#include <limits>
#include <stdexcept>
#include <exception>
#include <iostream>
#include <sstream>
#include <fstream>
#include <iomanip>
#include <cstdio>
#include <cstdlib>
#include <cstring>
#include <climits>
#include <cstddef>
#include <cassert>
#include <atomic>
#include <mutex>
#include <functional>
#include <new>
#include <typeinfo>
#include <unistd.h>
#include <pthread.h>
#define virtual
#define private public
#define protected public
#endif
#endif
