#!/usr/bin/env python3
"""Counterexample -> replay file -> native twin (DESIGN.md 2.8).

The native twin is built from
  * the *unsliced-text* functions under contract (slice only, NO normalisation) compiled by g++ with the
    real headers, real libstdc++ and real virtual dispatch,
  * the unit's wrap.cpp / env files compiled with -DVP_NATIVE,
  * the unit's contract.c compiled with -DVP_NATIVE (contract clauses erased by support/vp.h) and with the
    function under contract renamed to vp_checked_<f>, and
  * a generated C file that defines vp_checked_<f>: it snapshots every __CPROVER_old() expression, calls
    the real entry, and evaluates every __CPROVER_ensures clause of the (preprocessed) contract text as a
    C expression; main() loads the counterexample inputs (struct vp_in) and calls vp_call_<check>().
Exit status of the twin: 0 = all clauses hold on this input, 3 = a clause is violated (which), other = crash
(ASan/UBSan report) which confirms memory-safety obligations.
"""
import json
import os
import re
import shutil
import subprocess
import sys
import tempfile

import vp

VERIF = vp.VERIF


# ---------------------------------------------------------------- trace -> inputs
def inputs_from_trace(trace, stop_at=()):
    """value of every scalar cell of every ghost input (globals named vp_in*) at the moment the function under
    contract is entered: the last assignment BEFORE the first call of one of `stop_at` (the function itself may
    update input arrays in place, e.g. the ghost file)"""
    vals = {}
    order = []

    def put(lhs, v):
        if 'elements' in v:
            for e in v['elements']:
                put('%s[%d]' % (lhs, e['index']), e['value'])
            return
        if 'members' in v:
            for m in v['members']:
                if '$pad' not in m['name']:
                    put('%s.%s' % (lhs, m['name']), m['value'])
            return
        if 'binary' not in v:
            return
        if lhs not in vals:
            order.append(lhs)
        vals[lhs] = {'binary': v['binary'], 'data': v.get('data'), 'type': v.get('type')}
    for st in trace or []:
        if st.get('stepType') == 'function-call' and stop_at:
            f = st.get('function', {})
            if f.get('identifier') in stop_at or f.get('displayName') in stop_at:
                break
        if st.get('stepType') != 'assignment':
            continue
        lhs = st.get('lhs', '')
        if not re.match(r'^vp_in', lhs) or '$pad' in lhs:
            continue
        lhs = re.sub(r'\[(\d+)[a-zA-Z]*\]', r'[\1]', lhs)
        put(lhs, st.get('value', {}))
    return [(k, vals[k]) for k in order]


def trace_digest(trace, limit=160):
    out = []
    for st in trace or []:
        if st.get('hidden'):
            continue
        t = st.get('stepType')
        loc = st.get('sourceLocation', {})
        if str(loc.get('function', '')).startswith('__CPROVER') or str(loc.get('file', '')).startswith('<'):
            continue
        where = '%s:%s' % (os.path.basename(loc.get('file', '')), loc.get('line', ''))
        if t == 'assignment':
            lhs = st.get('lhs', '')
            if lhs.startswith('__') or ('$' in lhs and 'return_value' not in lhs):
                continue
            out.append('%s  %s = %s' % (where, lhs, st.get('value', {}).get('data')))
        elif t == 'function-call':
            out.append('%s  call %s' % (where, st.get('function', {}).get('displayName')))
        elif t == 'failure':
            out.append('%s  FAILURE %s: %s' % (where, st.get('property'), st.get('reason')))
    if len(out) > limit:
        out = out[:limit // 2] + ['... (%d steps elided) ...' % (len(out) - limit)] + out[-limit // 2:]
    return out


# ---------------------------------------------------------------- contract text -> executable checks
def match_paren(s, i):
    assert s[i] == '('
    d = 0
    j = i
    while j < len(s):
        if s[j] == '(':
            d += 1
        elif s[j] == ')':
            d -= 1
            if d == 0:
                return j
        elif s[j] == '"':
            j += 1
            while s[j] != '"':
                if s[j] == '\\':
                    j += 1
                j += 1
        j += 1
    raise ValueError("unbalanced parenthesis")


def implies_to_c(e):
    """rewrite CBMC's '==>' (lowest precedence above ?:, right associative) into !a || b, recursively"""
    # first rewrite inside parenthesised groups
    out = []
    i = 0
    while i < len(e):
        if e[i] == '(':
            j = match_paren(e, i)
            out.append('(' + implies_to_c(e[i + 1:j]) + ')')
            i = j + 1
        else:
            out.append(e[i])
            i += 1
    e = ''.join(out)
    # split at top level
    d = 0
    for i in range(len(e)):
        if e[i] == '(':
            d += 1
        elif e[i] == ')':
            d -= 1
        elif d == 0 and e.startswith('==>', i):
            return '(!(%s) || (%s))' % (e[:i].strip(), implies_to_c(e[i + 3:]).strip())
    return e


def contract_of(pre_text, fn):
    """find 'RET fn(params) <clauses> ;|{' in preprocessed text; return (ret, params, ensures[], requires[])"""
    for m in re.finditer(r'\b' + re.escape(fn) + r'\s*\(', pre_text):
        i = m.end() - 1
        j = match_paren(pre_text, i)
        rest = pre_text[j + 1:]
        k = 0
        clauses = []
        while True:
            mm = re.match(r'\s*(__CPROVER_(requires|ensures|assigns|frees))\s*\(', rest[k:])
            if not mm:
                break
            a = k + mm.end() - 1
            b = match_paren(rest, a)
            clauses.append((mm.group(2), rest[a + 1:b]))
            k = b + 1
        if not clauses:
            continue
        # return type: text before fn back to previous ; or }
        st = max(pre_text.rfind(';', 0, m.start()), pre_text.rfind('}', 0, m.start())) + 1
        ret = pre_text[st:m.start()].strip()
        ret = re.sub(r'^\s*#.*$', '', ret, flags=re.M).strip()
        params = pre_text[i + 1:j].strip()
        return ret, params, [c[1] for c in clauses if c[0] == 'ensures'], [c[1] for c in clauses if c[0] == 'requires']
    return None


def param_names(params):
    if params.strip() in ('', 'void'):
        return []
    names = []
    d = 0
    cur = ''
    parts = []
    for ch in params:
        if ch in '([':
            d += 1
        elif ch in ')]':
            d -= 1
        if ch == ',' and d == 0:
            parts.append(cur)
            cur = ''
        else:
            cur += ch
    parts.append(cur)
    for p in parts:
        m = re.search(r'([A-Za-z_]\w*)\s*(\[[^\]]*\])?\s*$', p.strip())
        names.append(m.group(1))
    return names


def gen_checked(fn, ret, params, ensures):
    """C source of vp_checked_<fn>"""
    olds = []

    def old_sub(e):
        out = ''
        i = 0
        while True:
            k = e.find('__CPROVER_old', i)
            if k < 0:
                out += e[i:]
                break
            out += e[i:k]
            a = e.index('(', k)
            b = match_paren(e, a)
            olds.append(e[a + 1:b])
            out += 'vp_old_%d' % (len(olds) - 1)
            i = b + 1
        return out
    checks = []
    for n, e in enumerate(ensures, 1):
        txt = ' '.join(e.split())
        if re.search(r'__CPROVER_(forall|exists|is_fresh|same_object|POINTER_OBJECT|POINTER_OFFSET|r_ok|w_ok|rw_ok|pointer_in_range)', e):
            checks.append((n, None, txt))
            continue
        c = old_sub(e)
        c = c.replace('__CPROVER_return_value', 'vp_ret')
        c = implies_to_c(c)
        checks.append((n, c, txt))
    void = ret.replace('extern', '').strip() == 'void'
    src = []
    src.append('%s %s(%s);' % (ret, fn, params))
    src.append('%s vp_checked_%s(%s)\n{' % (ret, fn, params))
    for i, o in enumerate(olds):
        src.append('  __typeof__(%s) vp_old_%d = (%s);' % (o, i, o))
    args = ', '.join(param_names(params))
    if void:
        src.append('  %s(%s);' % (fn, args))
    else:
        src.append('  %s vp_ret = %s(%s);' % (ret.replace('extern', '').strip(), fn, args))
    for n, c, txt in checks:
        if c is None:
            src.append('  printf("ENSURES %s.postcondition.%d SKIPPED (not natively evaluable)\\n");' % (fn, n))
        else:
            src.append('  if (!(%s)) { printf("ENSURES %s.postcondition.%d VIOLATED: %%s\\n", %s); vp_failed_clauses++; vp_failed[%d] = 1; }'
                       % (c, fn, n, json.dumps(txt), n))
            src.append('  else printf("ENSURES %s.postcondition.%d holds\\n");' % (fn, n))
    if not void:
        src.append('  return vp_ret;')
    src.append('}')
    return '\n'.join(src)


def gen_checked_cbmc(fn, ret, params, ensures, requires):
    """CBMC flavour of gen_checked: assume requires, assert every ensures clause (harness mode)"""
    olds = []

    def old_sub(e):
        out = ''
        i = 0
        while True:
            k = e.find('__CPROVER_old', i)
            if k < 0:
                out += e[i:]
                break
            out += e[i:k]
            a = e.index('(', k)
            b = match_paren(e, a)
            olds.append(e[a + 1:b])
            out += 'vp_old_%d' % (len(olds) - 1)
            i = b + 1
        return out
    void = ret.replace('extern', '').strip() == 'void'
    src = ['%s %s(%s);' % (ret, fn, params), '%s vp_checked_%s(%s)\n{' % (ret, fn, params)]
    for r in requires:
        src.append('  __CPROVER_assume(%s);' % ' '.join(r.split()))
    body = []
    for n, e in enumerate(ensures, 1):
        c = old_sub(' '.join(e.split())).replace('__CPROVER_return_value', 'vp_ret')
        body.append('  __CPROVER_assert(%s, "%s.postcondition.%d");' % (c, fn, n))
    for i, o in enumerate(olds):
        src.append('  __typeof__(%s) vp_old_%d = (%s);' % (o, i, o))
    args = ', '.join(param_names(params))
    if void:
        src.append('  %s(%s);' % (fn, args))
    else:
        src.append('  %s vp_ret = %s(%s);' % (ret.replace('extern', '').strip(), fn, args))
    src += body
    if not void:
        src.append('  return vp_ret;')
    src.append('}')
    return '\n'.join(src)


def native_flags(static_inc=None):
    fl = ['-DVP_NATIVE', '-g', '-O0', '-fno-pie', '-fsanitize=address,undefined', '-fno-sanitize-recover=undefined', '-fno-sanitize=vptr', '-w',
          '-I' + os.path.join(VERIF, 'support'), '-I' + os.path.join(VERIF, 'env'), '-I' + os.path.join(VERIF, 'contracts')]
    if static_inc:
        # VP_NATIVE_STATIC twin: the mirrored headers (N2, N6, N11, N17 - the cbmc view) and static binding
        fl += ['-DVP_NATIVE_STATIC', '-I' + static_inc]
        return fl
    fl.append('-I' + os.path.join(vp.REPO, '_build') if os.path.exists(os.path.join(vp.REPO, '_build', 'config.h')) else '-I.')
    for d in vp.native_include_dirs():
        fl.append('-I' + d)
    return fl


def build_and_run_twin(unit, chk, inputs, workdir, native_slices=None, obligation=None):
    """returns (status, output) status in {'confirmed','confirmed-other-clause','not-confirmed','build-failed','crash','twin-incomplete','run-failed'}"""
    os.makedirs(workdir, exist_ok=True)
    static = bool(unit.spec.get('native_static'))
    cxx_static = []
    if static:
        vp.mirror(workdir)
        fl = native_flags(os.path.join(workdir, 'inc'))
        cxx_static = ['-include', os.path.join(VERIF, 'support', 'native_static_prelude.h')]
    else:
        fl = native_flags()
    if not static and not os.path.exists(os.path.join(vp.REPO, '_build', 'config.h')):
        open(os.path.join(workdir, 'config.h'), 'w').write(vp.CONFIG_FALLBACK)
        fl.append('-I' + workdir)
    fn = chk.get('enforce')
    contract = unit.file(unit.spec.get('contract', 'contract.c'))
    defs = ['-D' + d for d in vp.unit_defines(unit)]
    # preprocessed contract text (CBMC view: clauses present)
    rc, pre, err, _ = vp.sh(['gcc', '-E', '-P', '-DVP_CBMC'] + defs + [x for x in fl if x.startswith('-I')] + [contract])
    if rc != 0:
        return 'build-failed', 'preprocess: ' + err[-2000:]
    gen = ['#include <stdio.h>', '#include <string.h>', '#include "vp.h"', 'int vp_failed_clauses; int vp_failed[256];']
    call = chk.get('call', 'vp_call_' + chk.get('name', ''))
    extra_define = []
    if fn:
        c = contract_of(pre, fn)
        if not c:
            return 'build-failed', 'contract of %s not found in preprocessed text' % fn
        ret, params, ensures, requires = c
        # need the types used in the signature: include the native view of the contract file first
        gen.append('#define %s vp_checked_%s' % (fn, fn))
        gen.append('#include "%s"' % contract)
        gen.append('#undef %s' % fn)
        gen.append(gen_checked(fn, ret, params, ensures))
    else:
        gen.append('#include "%s"' % contract)
    gen.append('int main(void)\n{')
    for lhs, v in inputs:
        gen.append('  %s = (__typeof__(%s))0x%xULL;' % (lhs, lhs, int(v['binary'], 2)))
    gen.append('  %s();' % call)
    gen.append('  printf("REPLAY done failed_clauses=%d\\n", vp_failed_clauses);')
    gen.append('  return vp_failed_clauses ? 3 : 0;\n}')
    gpath = os.path.join(workdir, 'twin_main.c')
    open(gpath, 'w').write('\n'.join(gen) + '\n')
    objs = []
    rc, out, err, _ = vp.sh(['gcc'] + fl + defs + ['-c', gpath, '-o', os.path.join(workdir, 'twin_main.o')])
    if rc != 0:
        return 'build-failed', 'twin_main.c: ' + err[-3000:]
    objs.append(os.path.join(workdir, 'twin_main.o'))
    if native_slices is None or static:
        rep = {}
        cb_slices, native_slices = vp.slice_unit(unit, workdir, rep)
        if static:
            # the translation units cbmc sees (normalised text, environment files appended / merged as for cbmc),
            # compiled by g++ against the real libstdc++
            native_slices = cb_slices
    cxx = list(native_slices) + [unit.file(f) for f in unit.spec.get('env', [])] + [os.path.join(VERIF, 'env', 'base.cpp')]
    if unit.spec.get('wrap', 'wrap.cpp'):
        cxx.append(unit.file(unit.spec.get('wrap', 'wrap.cpp')))
    cxx += [unit.file(f) for f in unit.spec.get('native_extra', [])]
    for k, sp in enumerate(unit.spec.get('sources', [])):
        if sp.get('append') and not static:
            # the files cbmc sees at the end of the sliced source form ONE native translation unit of their own
            comb = os.path.join(workdir, 'native_append_%d.cpp' % k)
            open(comb, 'w').write(''.join('#include "%s"\n' % unit.file(ap) for ap in sp['append']))
            cxx.append(comb)
    pre_inc = sum([['-include', x] for x in unit.spec.get('cxx_include', [])], [])
    for i, f in enumerate(cxx):
        o = os.path.join(workdir, 'n%d.o' % i)
        rc, out, err, _ = vp.sh(['g++', '-std=gnu++14'] + ([] if static else ['-Dprivate=public', '-Dprotected=public']) + ['-I' + unit.dir] + cxx_static + fl + defs + (pre_inc if f in native_slices else []) + ['-c', f, '-o', o])
        if rc != 0:
            return 'build-failed', '%s: %s' % (f, err[-3000:])
        objs.append(o)
    for i, f in enumerate(unit.file(x) for x in unit.spec.get('env_c', [])):
        o = os.path.join(workdir, 'nc%d.o' % i)
        rc, out, err, _ = vp.sh(['gcc'] + fl + defs + ['-c', f, '-o', o])
        if rc != 0:
            return 'build-failed', '%s: %s' % (f, err[-3000:])
        objs.append(o)
    exe = os.path.join(workdir, 'twin')
    rc, out, err, _ = vp.sh(['g++', '-no-pie', '-fsanitize=address,undefined', '-Wl,--unresolved-symbols=ignore-all', '-Wl,-z,lazy'] + objs + ['-o', exe] + unit.spec.get('native_libs', []))
    if rc != 0:
        return 'build-failed', 'link: ' + err[-3000:]
    env = dict(os.environ)
    env['ASAN_OPTIONS'] = 'detect_leaks=0:abort_on_error=0'
    rc, out, err, _ = vp.sh([exe], timeout=120, env=env)
    text = out + err[-4000:]
    if rc == 3:
        # a clause is violated natively; does it include the one CBMC named?
        if obligation and re.search(r'postcondition\.\d+$', obligation or ''):
            if ('ENSURES %s VIOLATED' % obligation) in out:
                return 'confirmed', text
            return 'confirmed-other-clause', text
        return 'confirmed', text
    if rc == 0:
        return 'not-confirmed', text
    if 'pc points to the zero page' in text:
        # a call through an unresolved symbol: the twin is incomplete (linked with --unresolved-symbols=ignore-all),
        # which says nothing about the real code
        return 'twin-incomplete', text
    if 'AddressSanitizer' in text or 'runtime error:' in text or rc < 0 or 'Segmentation' in text:
        return 'crash', text
    return 'run-failed', text


def make_replay(prop, unit, chk, res, violation, rep, scratch):
    rdir = os.environ.get('VP_REPLAY_DIR') or os.path.join(VERIF, 'replay')
    os.makedirs(rdir, exist_ok=True)
    obl = violation.get('property', 'unknown')
    inputs = inputs_from_trace(violation.get('trace'), tuple(x for x in (chk.get('enforce'),) if x))
    safe = re.sub(r'[^A-Za-z0-9_.-]', '_', '%s-%s-%s-%s' % (prop, unit.name, res['check'], obl))
    path = os.path.join(rdir, safe + '.json')
    names = {}
    sh_h = os.path.join(unit.dir, 'shared.h')
    if os.path.exists(sh_h):
        m = re.search(r'enum\s+vp_in_idx\s*\{([^}]*)\}', open(sh_h).read())
        if m:
            for i, nm in enumerate(x.strip() for x in re.sub(r'/\*.*?\*/', '', m.group(1), flags=re.S).split(',')):
                names['vp_in[%d]' % i] = nm
    doc = {
        'property': prop, 'unit': unit.name, 'check': res['check'], 'obligation': obl,
        'description': violation.get('description'),
        'location': violation.get('sourceLocation'),
        'checker_cmd': res.get('checker_cmd'),
        'inputs': [{'lhs': k, 'name': names.get(k), 'binary': v['binary'], 'data': v['data'], 'type': v['type']} for k, v in inputs],
        'verifier_output': trace_digest(violation.get('trace')),
        'how_to_replay': './bin/vcheck --replay ' + path,
    }
    confirmed = False
    note = ''
    if res.get('mode') == 'native_bounded':
        # the check itself ran the real function text natively on the failing input: its output is the replay
        doc['native_replay'] = {'status': 'confirmed', 'output': res.get('native_output', '')}
        doc['confirmed_on_real_code'] = True
        json.dump(doc, open(path, 'w'), indent=1)
        return path, True, 'native bounded enumeration on the real code'
    if chk.get('replay', True) and (inputs or not chk.get('enforce')):
        wd = os.path.join(scratch, 'twin', safe)
        try:
            status, out = build_and_run_twin(unit, chk, inputs, wd, rep.get('native_slices'), obl)
        except Exception as e:
            status, out = 'build-failed', 'exception: %r' % (e,)
        doc['native_replay'] = {'status': status, 'output': out[-6000:]}
        is_post = 'postcondition' in obl
        if status == 'confirmed' and is_post:
            confirmed = True
        elif status == 'confirmed-other-clause' and is_post:
            confirmed = True
        elif status in ('crash',) and not is_post:
            confirmed = True
        elif status == 'crash' and is_post:
            # a crash of the twin while replaying a POSTCONDITION counterexample: only units whose twin runs on real
            # objects (no raw-storage environment objects) may count it; otherwise it may be an artefact of the twin
            confirmed = bool(unit.spec.get('twin_crash_confirms_postcondition', False))
        note = 'native replay: ' + status
    else:
        doc['native_replay'] = {'status': 'not-attempted', 'output': 'this unit has no native twin (replay: false) or the trace carried no ghost inputs'}
        note = 'counterexample recorded, no native twin for this unit'
    doc['confirmed_on_real_code'] = confirmed
    json.dump(doc, open(path, 'w'), indent=1)
    return path, confirmed, note


def replay_file(path):
    doc = json.load(open(path))
    import driver
    units = driver.load_units(None, [doc['unit']])
    if not units:
        print("unit %s not found" % doc['unit'])
        return 2
    unit = units[0]
    chk = [c for c in unit.spec['checks'] if c.get('name', c['entry']) == doc['check']][0]
    inputs = [(i['lhs'], i) for i in doc['inputs']]
    wd = tempfile.mkdtemp(prefix='vp.replay.')
    try:
        status, out = build_and_run_twin(unit, chk, inputs, wd, None, doc['obligation'])
        print(out)
        print("REPLAY %s obligation=%s status=%s" % (doc['unit'], doc['obligation'], status))
        return 1 if status in ('confirmed', 'confirmed-other-clause', 'crash') else (0 if status == 'not-confirmed' else 2)
    finally:
        shutil.rmtree(wd, ignore_errors=True)
