#!/usr/bin/env python3
"""vcheck driver: vcheck <property> [--tier quick|thorough] [--unit NAME] [--keep] | vcheck --replay FILE"""
import argparse
import glob
import json
import os
import shutil
import sys
import tempfile
import time
import traceback
import concurrent.futures as cf

import vp
import replaygen

VERIF = vp.VERIF

ONLY_CHECKS = None

TRUSTED_BASE = [
    "cbmc 6.11.0: C++/C front ends, goto-instrument --dfcc contract instrumentation, SAT back end",
    "/verif/stubs/stl: executed container/string stubs standing in for libstdc++ (not proved equivalent)",
    "-Dvirtual= static binding + per-override contracts; -Dprivate=public -Dprotected=public",
    "header normalisation N2 (pure specifiers removed) and the per-unit text normalisations listed under units[].sources[].normalisations",
    "environment definitions in /verif/env and units/*/wrap.cpp for collaborators outside the unit (assumed behaviours, listed per unit)",
    "operator new never fails (support/support.c); OpenSSL, libc, OS are outside every contract",
]


def load_units(prop=None, only=None):
    units = []
    for d in sorted(glob.glob(os.path.join(VERIF, 'units', '*'))):
        if not os.path.exists(os.path.join(d, 'unit.json')):
            continue
        u = vp.Unit(d)
        if only and u.name not in only:
            continue
        if prop and prop not in u.spec.get('properties', []):
            # a check may also carry its own property list
            if not any(prop in c.get('properties', []) for c in u.spec.get('checks', [])):
                continue
        units.append(u)
    return units


def load_known():
    """known_findings.txt: 'finding: property=C07 unit=U check=C obligation=O :: text'  /  'fixed: ...'"""
    res = []
    p = os.path.join(VERIF, 'known_findings.txt')
    if not os.path.exists(p):
        return res
    for ln in open(p):
        ln = ln.strip()
        if not ln.startswith('finding:'):
            continue
        head, _, text = ln[len('finding:'):].partition('::')
        kv = dict(x.split('=', 1) for x in head.split() if '=' in x)
        kv['text'] = text.strip()
        res.append(kv)
    return res


def checks_for(unit, prop, tier):
    out = []
    for c in unit.spec.get('checks', []):
        if ONLY_CHECKS and c['name'] not in ONLY_CHECKS:
            continue
        if 'properties' in c and prop and prop not in c['properties']:
            continue
        if 'properties' not in c and prop and prop not in unit.spec.get('properties', []):
            continue
        if c.get('tier', 'quick') == 'thorough' and tier != 'thorough':
            continue
        c = dict(c)
        if tier == 'thorough' and 'thorough' in c:
            c.update(c['thorough'])
        out.append(c)
    return out


def run_unit(unit, prop, tier, scratch, mirror_rep):
    rep = {'unit': unit.name, 'functions_under_contract': unit.spec.get('functions_under_contract', []),
           'bounded': unit.spec.get('bounded', False), 'bound_note': unit.spec.get('bound_note', ''),
           'assumptions': unit.spec.get('assumptions', []), 'checks': []}
    t0 = time.time()
    try:
        objs = vp.build_unit(unit, scratch, rep)
        chks = checks_for(unit, prop, tier)

        def one(chk):
            r = vp.run_check(unit, chk, objs, scratch, rep)
            viol, inc = vp.classify(r)
            r['violations'] = viol
            r['inconclusive'] = inc
            if r['obligations'] < chk.get('min_obligations', 1):
                raise vp.Inconclusive("vacuity guard: %s/%s generated %d obligations, expected >= %d" % (
                    unit.name, r['check'], r['obligations'], chk.get('min_obligations', 1)))
            cov = r['cover']
            if not viol and not inc and (cov['unsatisfied'] or cov['goals'] < chk.get('min_covers', 1)):
                raise vp.Inconclusive("vacuity guard: cover canaries of %s/%s: %s" % (unit.name, r['check'], cov))
            r['chk'] = chk
            return r
        with cf.ThreadPoolExecutor(max_workers=max(1, min(4, len(chks)))) as ex:
            for r in ex.map(one, chks):
                rep['checks'].append(r)
        rep['status'] = 'ok'
    except vp.Inconclusive as e:
        rep['status'] = 'inconclusive'
        rep['reason'] = str(e)
    except Exception as e:  # engine bug: never a violation
        rep['status'] = 'inconclusive'
        rep['reason'] = 'engine exception: ' + ''.join(traceback.format_exception_only(type(e), e)) + traceback.format_exc()[-1500:]
    rep['wall_s'] = round(time.time() - t0, 2)
    return rep


def short_result(r):
    return {'obligation': r.get('property'), 'description': r.get('description'),
            'location': '%s:%s' % (os.path.basename(r.get('sourceLocation', {}).get('file', '?')), r.get('sourceLocation', {}).get('line', '?'))}


def main(argv):
    ap = argparse.ArgumentParser()
    ap.add_argument('property', nargs='?')
    ap.add_argument('--tier', default=os.environ.get('VERIF_TIER', 'quick'))
    ap.add_argument('--unit', action='append')
    ap.add_argument('--keep', action='store_true')
    ap.add_argument('--check', action='append', help='only these checks of the selected units (development aid; never writes evidence)')
    ap.add_argument('--replay')
    ap.add_argument('--no-evidence', action='store_true')
    ap.add_argument('-j', type=int, default=int(os.environ.get('VP_JOBS', '6')))
    a = ap.parse_args(argv)
    if a.replay:
        return replaygen.replay_file(a.replay)
    if a.tier not in ('quick', 'thorough'):
        a.tier = 'quick'
    prop = a.property
    global ONLY_CHECKS
    ONLY_CHECKS = a.check
    os.environ['VP_TIER'] = a.tier
    seed = int(os.environ.get('VERIF_SEED', '0') or 0)
    t0 = time.time()
    scratch = tempfile.mkdtemp(prefix='vp.')
    known = [k for k in load_known() if k.get('property') == prop]
    try:
        mrep = vp.mirror(scratch)
        units = load_units(prop, a.unit)
        if not units:
            print("INCONCLUSIVE no units registered for %s" % prop)
            return 2
        reps = []
        with cf.ThreadPoolExecutor(max_workers=a.j) as ex:
            futs = [ex.submit(run_unit, u, prop, a.tier, scratch, mrep) for u in units]
            for f in futs:
                reps.append(f.result())
        # ---- verdict
        total = discharged = 0
        violations = []
        knownhits = []
        inconcl = []
        samples = []
        cmds = []
        solver_s = 0.0
        bounded_native = []
        for rep in reps:
            if rep['status'] != 'ok':
                inconcl.append((rep['unit'], rep.get('reason', '')))
            for r in rep['checks']:
                if r['mode'] == 'native_bounded':
                    # a bounded stand-in is reported, never counted as proved
                    bounded_native.append('%s/%s: %d inputs enumerated, %d clauses checked on each, %d failed' % (
                        rep['unit'], r['check'], r.get('enumerated_inputs', 0), r['obligations'], len(r['violations'])))
                else:
                    total += r['obligations']
                    discharged += r['obligations'] - len(r['violations'] + r['inconclusive'])
                bad = r['violations'] + r['inconclusive']
                solver_s += r['solver_s']
                cmds.append(r['checker_cmd'])
                for x in r['inconclusive']:
                    inconcl.append((rep['unit'] + '/' + r['check'], x.get('property') + ': ' + x.get('description', '')))
                for v in r['violations']:
                    k = [kf for kf in known if kf.get('unit') == rep['unit'] and kf.get('check', r['check']) == r['check']
                         and kf.get('obligation') == v.get('property')]
                    if k:
                        knownhits.append((k[0], rep['unit'], r['check'], v))
                    else:
                        violations.append((rep, r, v))
                ok = [x for x in r['results'] if x.get('status') == 'SUCCESS']
                for x in ok[:2]:
                    samples.append(dict(short_result(x), unit=rep['unit'], check=r['check'], status='SUCCESS'))
        # an obligation listed as a known finding is reported as such and is not part of what this run claims: it is
        # excluded from the obligation count (evidence: known_findings_hit / obligations_excluded_as_known_findings)
        total -= len(knownhits)
        # ---- replay of violations
        viol_lines = []
        for rep, r, v in violations:
            unit = [u for u in units if u.name == rep['unit']][0]
            path, confirmed, note = replaygen.make_replay(prop, unit, r['chk'], r, v, rep, scratch)
            line = "VIOLATION property=%s replay=%s" % (prop, path)
            if not confirmed:
                line += " no-failing-input-found"
            viol_lines.append((line, rep['unit'], r['check'], v, note))
        wall = round(time.time() - t0, 2)
        # ---- evidence
        ev = {
            'property_id': prop, 'tier': a.tier, 'seed': seed, 'level': 'proof',
            'coverage': {
                'obligations': total, 'discharged': discharged,
                'checker_cmd': cmds[0] if cmds else 'none',
                'all_checker_cmds': cmds,
                'trusted_base': TRUSTED_BASE,
                'samples': samples[:12],
                'solver_seconds': round(solver_s, 2),
                'mirror': mrep,
                'units': [strip_unit(rep) for rep in reps],
                'bounded_units': [rep['unit'] + ': ' + rep.get('bound_note', '') for rep in reps if rep.get('bounded')],
                'bounded_native_checks_not_counted_as_proved': bounded_native,
                'known_findings_hit': [k[0].get('text') for k in knownhits],
                'obligations_excluded_as_known_findings': ['%s/%s %s' % (u, c, v.get('property')) for k, u, c, v in knownhits],
                'inconclusive': ['%s: %s' % x for x in inconcl],
                'exhaustive': False,
            },
            'assumptions': sorted(set(sum([rep['assumptions'] for rep in reps], []))),
            'wall_s': wall,
            'violations': len(viol_lines),
        }
        if not a.no_evidence and not a.unit and not a.check:
            os.makedirs(os.path.join(VERIF, 'evidence'), exist_ok=True)
            json.dump(ev, open(os.path.join(VERIF, 'evidence', prop + '.json'), 'w'), indent=1)
        # ---- report
        for rep in reps:
            for r in rep['checks']:
                bad = len(r['violations']) + len(r['inconclusive'])
                print("unit %-28s check %-26s %-7s obligations=%-4d failed=%-2d cover=%s solver=%.1fs" % (
                    rep['unit'], r['check'], r['mode'], r['obligations'], bad,
                    ('%d/%d' % (r['cover']['satisfied'], r['cover']['goals'])) if 'cover' in r else '-', r['solver_s']))
        for k, u, c, v in knownhits:
            print("KNOWN-FINDING: property=%s %s [unit=%s check=%s obligation=%s]" % (prop, k.get('text'), u, c, v.get('property')))
        for line, u, c, v, note in viol_lines:
            print("  failed obligation: unit=%s check=%s %s: %s (%s)" % (u, c, v.get('property'), v.get('description'), note))
            print(line)
        if viol_lines:
            return 1
        if inconcl:
            for u, why in inconcl:
                print("INCONCLUSIVE %s: %s" % (u, why.strip()[:1500]))
            return 2
        print("OK property=%s tier=%s units=%d obligations=%d discharged=%d wall=%.1fs" % (
            prop, a.tier, len(reps), total, discharged, wall))
        return 0
    finally:
        if a.keep:
            print("scratch kept: " + scratch)
        else:
            shutil.rmtree(scratch, ignore_errors=True)


def strip_unit(rep):
    out = {k: v for k, v in rep.items() if k not in ('checks', 'build_log', 'native_slices')}
    out['checks'] = []
    for r in rep['checks']:
        out['checks'].append({
            'check': r['check'], 'mode': r['mode'], 'enforce': r.get('enforce'), 'replaced_by_contract': r.get('replace'),
            'obligations': r['obligations'], 'failed': [short_result(x) for x in r['violations'] + r['inconclusive']],
            'backend': r.get('backend'), 'solver_s': r['solver_s'], 'cover': r.get('cover'),
            'unwind': r['chk'].get('unwind'), 'checker_cmd': r['checker_cmd']})
    return out


if __name__ == '__main__':
    sys.exit(main(sys.argv[1:]))
