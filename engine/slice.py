#!/usr/bin/env python3
"""Mechanical extraction of function definitions out of a /repo .cpp file.

The output is the input file *unchanged* except that every file-scope function definition whose
name is not in the keep-list is replaced by blank lines (so line numbers in CBMC locations are
the real /repo line numbers) and, for dropped `static` functions, by their prototype (so kept
functions that call them still compile; the callee is then provided by the environment or by a
contract stub).  Kept functions are verbatim text.  Optionally a kept function is *cut* at a
marker: the text from the first line matching the marker up to (not including) the closing brace
of the function is replaced by a given statement; the evidence lists every cut with its range.

Must-fire: every keep name must be found (the right number of times), every cut marker must
match exactly once; otherwise SliceError -> the check ends INCONCLUSIVE (exit 2), never a
violation.
"""
import re


class SliceError(Exception):
    pass


def blank_comments(s):
    """comments and string/char literal contents -> spaces, layout preserved"""
    out = []
    i = 0
    n = len(s)
    while i < n:
        c = s[i]
        if s.startswith('//', i):
            j = s.find('\n', i)
            j = n if j < 0 else j
            out.append(' ' * (j - i))
            i = j
        elif s.startswith('/*', i):
            j = s.find('*/', i + 2)
            j = n if j < 0 else j + 2
            out.append(re.sub(r'[^\n]', ' ', s[i:j]))
            i = j
        elif c == '"' or c == "'":
            q = c
            j = i + 1
            while j < n and s[j] != q:
                if s[j] == '\\':
                    j += 1
                j += 1
            out.append(q + re.sub(r'[^\n]', ' ', s[i + 1:j]) + q)
            i = j + 1
        else:
            out.append(c)
            i += 1
    return ''.join(out)


_NOTFUN = re.compile(r'\s*(class|struct|enum|namespace|union|typedef|extern\s+"C")\b')


def functions(src):
    """[(name, start, end, body_open)] for file-scope function definitions, in file order."""
    cl = blank_comments(src)
    i = 0
    n = len(cl)
    stmt_start = 0
    res = []
    while i < n:
        c = cl[i]
        if c == '#' and (i == 0 or cl[i - 1] == '\n' or cl[:i].rsplit('\n', 1)[-1].strip() == ''):
            j = i
            while True:
                k = cl.find('\n', j)
                k = n if k < 0 else k
                if k > 0 and cl[k - 1] == '\\':
                    j = k + 1
                    continue
                break
            i = k + 1
            stmt_start = i
            continue
        if c == ';':
            stmt_start = i + 1
        elif c == '{':
            head = cl[stmt_start:i]
            m = re.search(r'((?:[A-Za-z_~][\w~]*\s*::\s*)*(?:operator\s*[^\s\w(]+|operator\s*\(\s*\)|operator\s+\w+|[A-Za-z_~][\w~]*))\s*\(', head)
            isfun = bool(m) and ')' in head and not _NOTFUN.match(head) \
                and '=' not in head[:m.start()]
            d = 0
            j = i
            while j < n:
                if cl[j] == '{':
                    d += 1
                elif cl[j] == '}':
                    d -= 1
                    if d == 0:
                        break
                j += 1
            if isfun:
                name = re.sub(r'\s+', '', m.group(1))
                # start after leading blank space
                st = stmt_start
                while st < i and cl[st] in ' \t\r\n':
                    st += 1
                res.append((name, st, j + 1, i))
                i = j + 1
                stmt_start = i
                continue
            if re.match(r'\s*(namespace|extern\s+"C")', head):
                i += 1
                stmt_start = i
                continue
            i = j + 1
            continue
        elif c == '}':
            stmt_start = i + 1
        i += 1
    return res


def line_of(src, pos):
    return src.count('\n', 0, pos) + 1


def slice_source(src, keep, cuts=None, protos=True, stubs=None, auto_static=True):
    """keep: list of names; 'name' keeps every overload, 'name#k' the k-th (1-based) definition.
    cuts: {name: {'marker': regex, 'replace': text}}.
    auto_static: file-static helper functions that the kept text calls and that are neither kept nor stubbed are kept
    as well (transitively; reported as 'auto_kept'): a refactoring that moves part of a function under contract into a
    new static helper stays inside the unit instead of ending in an extraction miss.
    returns (text, report)"""
    if auto_static:
        keep = list(keep)
        auto = []
        while True:
            text, rep = slice_source(src, keep, cuts, protos, stubs, auto_static=False)
            fs0 = functions(src)
            cl0 = blank_comments(src)
            kept_names = set(k['function'] for k in rep['kept'])
            kept_text = blank_comments(text)
            new = []
            for name, a, b, bo in fs0:
                head = cl0[a:bo]
                if name in kept_names or name in (stubs or {}) or name in new or '::' in name:
                    continue
                if not re.match(r'\s*(static|inline)\b', head):
                    continue
                # called from kept text?  (the prototype the slicer leaves behind ends in ';' and is not a call site)
                for m in re.finditer(r'\b' + re.escape(name) + r'\s*\(', kept_text):
                    ln_start = kept_text.rfind('\n', 0, m.start()) + 1
                    ln_end = kept_text.find('\n', m.end())
                    line = kept_text[ln_start:ln_end if ln_end >= 0 else len(kept_text)]
                    if re.match(r'\s*(static|inline)\b', line) and line.rstrip().endswith(';'):
                        continue
                    new.append(name)
                    break
            if not new:
                rep['auto_kept'] = auto
                return text, rep
            keep += new
            auto += new
    cuts = cuts or {}
    stubs = stubs or {}
    stubbed = []
    fs = functions(src)
    want_all = set(k for k in keep if '#' not in k)
    want_nth = {}
    for k in keep:
        if '#' in k:
            nm, idx = k.split('#')
            want_nth.setdefault(nm, set()).add(int(idx))
    seen = {}
    out = []
    pos = 0
    kept = []
    found = set()
    cutrep = []
    for name, a, b, bo in fs:
        seen[name] = seen.get(name, 0) + 1
        out.append(src[pos:a])
        k = name in want_all or seen[name] in want_nth.get(name, ())
        if k:
            text = src[a:b]
            if name in cuts and (name in want_all or True):
                cspec = cuts[name]
                body = text
                lines = body.split('\n')
                hits = [idx for idx, ln in enumerate(lines) if re.search(cspec['marker'], ln)]
                if len(hits) != 1:
                    raise SliceError("cut marker %r matched %d times in %s" % (cspec['marker'], len(hits), name))
                h = hits[0]
                # last line holds the closing brace of the function
                dropped = lines[h:len(lines) - 1]
                newl = lines[:h] + [cspec['replace']] + [''] * (len(dropped) - 1) + [lines[-1]]
                text = '\n'.join(newl)
                cutrep.append({'function': name, 'dropped_lines': [line_of(src, a) + h, line_of(src, b) - 1],
                               'replaced_by': cspec['replace']})
            out.append(text)
            kept.append({'function': name, 'lines': [line_of(src, a), line_of(src, b)]})
            found.add(name if name in want_all else '%s#%d' % (name, seen[name]))
        else:
            nl = src.count('\n', a, b)
            head = blank_comments(src)[a:bo]
            if name in stubs:
                # dropped function replaced in place by a stated stub body (needed for file-static callees)
                out.append(re.sub(r'\s+', ' ', head).strip() + ' ' + stubs[name].replace('\n', ' ') + '\n' * nl)
                stubbed.append({'function': name, 'lines': [line_of(src, a), line_of(src, b)], 'stub': stubs[name]})
            elif protos and re.match(r'\s*(static|inline)\b', head) and '::' not in head.split('(')[0]:
                proto = re.sub(r'\s+', ' ', head).strip() + ';'
                out.append(proto + '\n' * nl)
            else:
                out.append('\n' * nl)
        pos = b
    out.append(src[pos:])
    miss = [k for k in keep if k not in found]
    if miss:
        raise SliceError("functions not found: %s" % sorted(miss))
    for c in cuts:
        if c not in [x['function'] for x in cutrep]:
            raise SliceError("cut for %s did not fire" % c)
    for st in stubs:
        if st not in [x['function'] for x in stubbed]:
            raise SliceError("stub for %s did not fire" % st)
    return ''.join(out), {'kept': kept, 'cuts': cutrep, 'stubbed': stubbed, 'functions_in_file': len(fs)}


if __name__ == '__main__':
    import sys
    src = open(sys.argv[1]).read()
    if len(sys.argv) < 3:
        for f in functions(src):
            print(f[0], line_of(src, f[1]), line_of(src, f[2]))
    else:
        t, r = slice_source(src, sys.argv[2].split(','))
        sys.stdout.write(t)
