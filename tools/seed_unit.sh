#!/bin/bash
# seed_unit.sh <seed-id> <property> <unit> [check]: run one unit of a property against a scratch copy of /repo/src with a seeded change applied
V=$(cd "$(dirname "$0")/.." && pwd); seed=$1; prop=$2; unit=$3; chk=${4:+--check $4}
d=$(mktemp -d /tmp/seedrun.XXXXXX); mkdir -p $d/repo/_build; rsync -a /repo/src $d/repo/; cp /repo/_build/config.h $d/repo/_build/
(cd $d/repo && patch -p1 -s -i $V/seeded/$seed/patch.diff) || { echo "patch failed"; rm -rf $d; exit 2; }
VP_REPO=$d/repo VP_REPLAY_DIR=$d/replay $V/bin/vcheck $prop --unit $unit $chk --no-evidence 2>&1 | grep -v "^unit" | cut -c1-400
python3 - $d <<'PY'
import json,glob,sys
for f in sorted(glob.glob(sys.argv[1]+'/replay/*.json')):
    d=json.load(open(f)); st=d['native_replay']['status']; print('REPLAY', d['obligation'], st)
    if st not in ('confirmed','confirmed-other-clause'): print(d['native_replay']['output'][-2500:])
PY
rm -rf $d
