#!/usr/bin/env python3
"""Rewrites the seed table at the end of DESIGN.md section 9 from seeded/*/detection.json (run after tools/seed_matrix.py)."""
import glob, json, os, re
V = os.path.dirname(os.path.dirname(os.path.abspath(__file__)))
rows = ['| seed | caught by (unit/check: failing obligations; r = counterexample replayed on the native twin) |', '|---|---|']
for mf in sorted(glob.glob(os.path.join(V, 'seeded', '*', 'meta.json'))):
    sd = os.path.dirname(mf); meta = json.load(open(mf)); dp = os.path.join(sd, 'detection.json')
    if not os.path.exists(dp):
        rows.append('| %s (%s) | not run |' % (meta['id'], meta['change'][:90].replace('|', '\\|'))); continue
    r = json.load(open(dp)); by = {}
    for f in r['failed_obligations']:
        o = f['obligation'].split('.postcondition.')[-1]
        if len(o) > 12: o = o.split('.')[0] + '…'
        by.setdefault(f['unit'] + '/' + f['check'], []).append(o + (' r' if ('confirmed' in f['replay'] or 'native bounded' in f['replay'] or 'crash' in f['replay']) else ''))
    caught = '; '.join('`%s`: %s' % (k, ', '.join(v[:4]) + (' …' if len(v) > 4 else '')) for k, v in sorted(by.items())[:2]) or ('**missed**' if r['exit'] == 0 else 'inconclusive')
    rows.append('| %s (%s) | %s |' % (meta['id'], meta['change'][:90].replace('|', '\\|'), caught))
p = os.path.join(V, 'DESIGN.md'); s = open(p).read()
i = s.index('| seed | caught by'); j = s.index('(The table is the state of')
s = s[:i] + '\n'.join(rows) + '\n\n' + s[j:]
open(p, 'w').write(s)
print(len(rows) - 2, 'rows')
