#!/bin/bash
# confirm_seed.sh <built scratch worktree of /repo> <seed dir with patch.diff, run_demo.sh> [pristine libsofthsm2.so]
# Confirms a seeded change: applies, builds, whole test suite passes, demo exits 1 with and 0 without the change.
# Prints one line "CONFIRM <seed> apply=.. build=.. ctest=.. demo_with=.. demo_without=.." ; leaves the worktree pristine.
WT=$1; SD=$(readlink -f $2); PRIS=${3:-}
export OPENSSL_CONF=${OPENSSL_CONF:-/tmp/seedwt/openssl-legacy.cnf}
id=$(basename $SD)
git -C $WT checkout -q -- . ; git -C $WT checkout -q --detach $(git -C /repo rev-parse HEAD) 2>/dev/null
cmake --build $WT/_build -j${JOBS:-6} >/dev/null 2>&1
if [ -z "$PRIS" ]; then PRIS=$WT/_build/pristine_libsofthsm2.so; cp $WT/_build/src/lib/libsofthsm2.so $PRIS; fi
( cd $SD && INC=$WT/src/lib/pkcs11 sh ./run_demo.sh $PRIS >$SD/demo_without.log 2>&1 ); dwo=$?
if git -C $WT apply $SD/patch.diff 2>/dev/null; then ap=ok; else ap=FAIL; fi
if cmake --build $WT/_build -j${JOBS:-6} >$SD/build.log 2>&1; then b=ok; else b=FAIL; fi
ct=$(ctest --test-dir $WT/_build -j8 --timeout 900 2>&1 | grep "tests passed" | tr -d '\n')
( cd $SD && INC=$WT/src/lib/pkcs11 sh ./run_demo.sh $WT/_build/src/lib/libsofthsm2.so >$SD/demo_with.log 2>&1 ); dw=$?
git -C $WT checkout -q -- . ; cmake --build $WT/_build -j${JOBS:-6} >/dev/null 2>&1
rm -f $SD/build.log
echo "CONFIRM $id head=$(git -C $WT rev-parse --short HEAD) apply=$ap build=$b ctest='$ct' demo_with=$dw demo_without=$dwo"
