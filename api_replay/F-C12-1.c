/* F-C12-1: C_FindObjectsInit sets SESSION_OP_FIND before its failure returns: when matching fails (a private object's
 * stored attribute does not decrypt) the call returns CKR_GENERAL_ERROR but the session stays in "find active" state:
 * every later C_FindObjectsInit answers CKR_OPERATION_ACTIVE.  exit 0 = property holds, 1 = violated. */
#include "p11util.h"
#include <dirent.h>
static int corrupt_label(void)
{
	char cmd[600]; snprintf(cmd, sizeof cmd, "find %s/tokens -name '*.object' ! -name 'token.object'", tmpd);
	FILE* p = popen(cmd, "r"); char path[512]; int done = 0;
	while (p && fgets(path, sizeof path, p))
	{
		path[strcspn(path, "\n")] = 0;
		FILE* f = fopen(path, "r+b"); if (!f) continue;
		unsigned char buf[8192]; size_t n = fread(buf, 1, sizeof buf, f);
		for (size_t i = 0; i + 24 + 32 <= n; i++)
		{
			static const unsigned char pat[16] = { 0,0,0,0,0,0,0,3, 0,0,0,0,0,0,0,3 };   /* CKA_LABEL, byte-string kind */
			if (memcmp(buf + i, pat, 16) == 0 && buf[i + 23] == 32)                          /* IV + one cipher block */
			{
				fseek(f, (long)(i + 24 + 31), SEEK_SET); unsigned char b = buf[i + 24 + 31] ^ 0x55; fwrite(&b, 1, 1, f); done = 1; break;
			}
		}
		fclose(f);
	}
	if (p) pclose(p);
	return done;
}
int main(int argc, char** argv)
{
	if (p11_setup(argv[1], NULL)) return 2;
	CK_SLOT_ID slot = p11_init_token("12345678", "1234");
	CK_SESSION_HANDLE s; p11->C_OpenSession(slot, CKF_SERIAL_SESSION | CKF_RW_SESSION, NULL, NULL, &s);
	p11->C_Login(s, CKU_USER, (CK_UTF8CHAR_PTR)"1234", 4);
	CK_OBJECT_CLASS cls = CKO_DATA; CK_BBOOL t = CK_TRUE;
	CK_ATTRIBUTE tpl[] = { { CKA_CLASS, &cls, sizeof cls }, { CKA_TOKEN, &t, 1 }, { CKA_PRIVATE, &t, 1 }, { CKA_LABEL, "0123456789", 10 } };
	CK_OBJECT_HANDLE h; CHECK(p11->C_CreateObject(s, tpl, 4, &h), CKR_OK);
	p11->C_Finalize(NULL);
	if (!corrupt_label()) { printf("could not locate the encrypted label in the object file\n"); return 2; }
	if (p11->C_Initialize(NULL) != CKR_OK) return 2;
	{ CK_SLOT_ID sl[16]; CK_ULONG n = 16; p11->C_GetSlotList(CK_TRUE, sl, &n); slot = sl[0]; }
	CHECK(p11->C_OpenSession(slot, CKF_SERIAL_SESSION | CKF_RW_SESSION, NULL, NULL, &s), CKR_OK);
	CHECK(p11->C_Login(s, CKU_USER, (CK_UTF8CHAR_PTR)"1234", 4), CKR_OK);
	CK_ATTRIBUTE q[] = { { CKA_LABEL, "0123456789", 10 } };
	CK_RV rv = p11->C_FindObjectsInit(s, q, 1);
	printf("C_FindObjectsInit on the corrupted object -> 0x%lx\n", rv);
	if (rv == CKR_OK) { p11->C_FindObjectsFinal(s); printf("(the corrupted label happened to decrypt; no failure path exercised)\n"); p11_done(); return 2; }
	/* the failed operation must be gone */
	CK_ATTRIBUTE q2[] = { { CKA_CLASS, &cls, sizeof cls } };
	(void)q2;
	rv = p11->C_DigestInit(s, &(CK_MECHANISM){ CKM_SHA256, NULL, 0 });
	if (rv != CKR_OK) { printf("FAIL after the failed find, C_DigestInit -> 0x%lx (CKR_OPERATION_ACTIVE = 0x90)\n", rv); fails++; }
	p11_done();
	printf(fails ? "VIOLATED\n" : "holds\n");
	return fails ? 1 : 0;
}
