/* F-C09-2: a failing C_SetAttributeValue on a SESSION object applies the prefix of the rejected template
 * (P11Object::saveTemplate aborts the transaction on the first error, but SessionObject::abortTransaction is a stub).
 * exit 0 = property holds, 1 = violated. */
#include "p11util.h"
int main(int argc, char** argv)
{
	if (p11_setup(argv[1], NULL)) return 2;
	CK_SLOT_ID slot = p11_init_token("12345678", "1234");
	CK_SESSION_HANDLE s; p11->C_OpenSession(slot, CKF_SERIAL_SESSION | CKF_RW_SESSION, NULL, NULL, &s);
	p11->C_Login(s, CKU_USER, (CK_UTF8CHAR_PTR)"1234", 4);
	CK_OBJECT_CLASS cls = CKO_DATA; CK_BBOOL t = CK_TRUE, f = CK_FALSE;
	for (int tok = 0; tok < 2; tok++)
	{
		CK_ATTRIBUTE tpl[] = { { CKA_CLASS, &cls, sizeof cls }, { CKA_TOKEN, tok ? &t : &f, 1 }, { CKA_PRIVATE, &f, 1 }, { CKA_LABEL, "old", 3 } };
		CK_OBJECT_HANDLE h = 0;
		if (p11->C_CreateObject(s, tpl, 4, &h) != CKR_OK) { printf("create failed\n"); return 2; }
		/* valid change of the label, followed by an attribute that may not be changed (CKA_CLASS is read-only) */
		CK_OBJECT_CLASS other = CKO_SECRET_KEY;
		CK_ATTRIBUTE set[] = { { CKA_LABEL, "new", 3 }, { CKA_CLASS, &other, sizeof other } };
		CK_RV rv = p11->C_SetAttributeValue(s, h, set, 2);
		if (rv == CKR_OK) { printf("unexpected success\n"); return 2; }
		char lab[8] = { 0 }; CK_ATTRIBUTE get[] = { { CKA_LABEL, lab, 7 } };
		p11->C_GetAttributeValue(s, h, get, 1);
		if (memcmp(lab, "old", 3) != 0) { printf("FAIL %s object: C_SetAttributeValue failed with 0x%lx but CKA_LABEL is now \"%s\"\n", tok ? "token" : "session", rv, lab); fails++; }
	}
	p11_done();
	printf(fails ? "VIOLATED\n" : "holds\n");
	return fails ? 1 : 0;
}
