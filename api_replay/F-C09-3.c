/* F-C09-3 (known finding, not repaired): ObjectFile::writeAttributes rewrites the object file in place - it truncates the
 * file first and writes afterwards.  When a write or the flush then fails (disk full, file size limit), the call correctly
 * returns an error, but the previous content of the object file is already gone: C_SetAttributeValue(CKA_LABEL) fails and
 * the whole object has disappeared after the next C_Initialize.  Property C09: "whenever ... call returns an error, the set of
 * objects and every attribute value - in memory ... and in the token directory - are exactly what they were before".
 * exit 0 = property holds, 1 = violated. */
#include "p11util.h"
#include <sys/resource.h>
#include <signal.h>
static int find_data(CK_SESSION_HANDLE s, CK_OBJECT_HANDLE* h)
{
	CK_OBJECT_CLASS c = CKO_DATA; CK_ATTRIBUTE t[] = { { CKA_CLASS, &c, sizeof c } }; CK_ULONG n = 0;
	if (p11->C_FindObjectsInit(s, t, 1) != CKR_OK) return -1;
	p11->C_FindObjects(s, h, 1, &n); p11->C_FindObjectsFinal(s);
	return (int)n;
}
int main(int argc, char** argv)
{
	if (p11_setup(argv[1], NULL)) return 2;
	CK_SLOT_ID slot = p11_init_token("12345678", "1234");
	CK_SESSION_HANDLE s; p11->C_OpenSession(slot, CKF_SERIAL_SESSION | CKF_RW_SESSION, NULL, NULL, &s);
	p11->C_Login(s, CKU_USER, (CK_UTF8CHAR_PTR)"1234", 4);
	CK_OBJECT_CLASS c = CKO_DATA; CK_BBOOL t = CK_TRUE, f = CK_FALSE; CK_BYTE val[200]; memset(val, 0x5a, sizeof val);
	CK_ATTRIBUTE tmpl[] = { { CKA_CLASS, &c, sizeof c }, { CKA_TOKEN, &t, 1 }, { CKA_PRIVATE, &f, 1 }, { CKA_VALUE, val, sizeof val }, { CKA_LABEL, (void*)"old", 3 } };
	CK_OBJECT_HANDLE h = 0;
	CHECK(p11->C_CreateObject(s, tmpl, 5, &h), CKR_OK);
	signal(SIGXFSZ, SIG_IGN);
	struct rlimit old, lim; getrlimit(RLIMIT_FSIZE, &old); lim = old; lim.rlim_cur = 64; setrlimit(RLIMIT_FSIZE, &lim);
	CK_ATTRIBUTE set[] = { { CKA_LABEL, (void*)"new", 3 } };
	CK_RV rv = p11->C_SetAttributeValue(s, h, set, 1);
	setrlimit(RLIMIT_FSIZE, &old);
	printf("C_SetAttributeValue under a 64-byte file size limit -> 0x%lx\n", rv);
	p11->C_Finalize(NULL);
	if (p11->C_Initialize(NULL) != CKR_OK) return 2;
	{ CK_SLOT_ID sl[16]; CK_ULONG ns = 16; p11->C_GetSlotList(CK_TRUE, sl, &ns); slot = sl[0]; }
	p11->C_OpenSession(slot, CKF_SERIAL_SESSION | CKF_RW_SESSION, NULL, NULL, &s);
	p11->C_Login(s, CKU_USER, (CK_UTF8CHAR_PTR)"1234", 4);
	int n = find_data(s, &h);
	char label[8] = { 0 }; CK_ATTRIBUTE get[] = { { CKA_LABEL, label, 7 } };
	if (n == 1) p11->C_GetAttributeValue(s, h, get, 1);
	printf("after re-initialisation: %d data object(s), label '%s'\n", n, label);
	if (rv != CKR_OK && !(n == 1 && strcmp(label, "old") == 0)) { printf("FAIL: the call failed, yet the object is not what it was before\n"); fails++; }
	if (rv == CKR_OK && !(n == 1 && strcmp(label, "new") == 0)) { printf("FAIL: the call succeeded but was not persisted\n"); fails++; }
	p11_done();
	printf(fails ? "VIOLATED\n" : "holds\n");
	return fails ? 1 : 0;
}
