/* F-C05-1: a failed flush of the object file is not reported.  ObjectFile::writeAttributes truncates the file, writes
 * through stdio (buffered) and ends with File::unlock(), which calls flush() and ignores its result.  When the data does not
 * reach the disk (disk full / file size limit at flush time) C_CreateObject still returns CKR_OK; the object is served from
 * the in-memory cache until the library is re-initialised and is gone afterwards.
 * exit 0 = property holds (every call that returned CKR_OK is durable), 1 = violated. */
#include "p11util.h"
#include <sys/resource.h>
#include <signal.h>
static int count_data_objects(CK_SESSION_HANDLE s)
{
	CK_OBJECT_CLASS c = CKO_DATA; CK_ATTRIBUTE t[] = { { CKA_CLASS, &c, sizeof c } };
	CK_OBJECT_HANDLE h[16]; CK_ULONG n = 0;
	CK_RV r = p11->C_FindObjectsInit(s, t, 1); if (r != CKR_OK) { printf("C_FindObjectsInit -> 0x%lx\n", r); return -1; }
	p11->C_FindObjects(s, h, 16, &n); p11->C_FindObjectsFinal(s);
	return (int)n;
}
int main(int argc, char** argv)
{
	if (p11_setup(argv[1], NULL)) return 2;
	CK_SLOT_ID slot = p11_init_token("12345678", "1234");
	CK_SESSION_HANDLE s; p11->C_OpenSession(slot, CKF_SERIAL_SESSION | CKF_RW_SESSION, NULL, NULL, &s);
	p11->C_Login(s, CKU_USER, (CK_UTF8CHAR_PTR)"1234", 4);
	signal(SIGXFSZ, SIG_IGN);
	struct rlimit old, lim; getrlimit(RLIMIT_FSIZE, &old); lim = old; lim.rlim_cur = 64;      /* smaller than any object file */
	setrlimit(RLIMIT_FSIZE, &lim);
	CK_OBJECT_CLASS c = CKO_DATA; CK_BBOOL t = CK_TRUE, f = CK_FALSE; CK_BYTE val[200]; memset(val, 0x5a, sizeof val);
	CK_ATTRIBUTE tmpl[] = { { CKA_CLASS, &c, sizeof c }, { CKA_TOKEN, &t, 1 }, { CKA_PRIVATE, &f, 1 }, { CKA_VALUE, val, sizeof val } };
	CK_OBJECT_HANDLE h = 0;
	CK_RV rv = p11->C_CreateObject(s, tmpl, 4, &h);
	setrlimit(RLIMIT_FSIZE, &old);
	printf("C_CreateObject under a 64-byte file size limit -> 0x%lx\n", rv);
	int before = count_data_objects(s);
	p11->C_Finalize(NULL);
	if (p11->C_Initialize(NULL) != CKR_OK) return 2;
	{ CK_SLOT_ID sl[16]; CK_ULONG ns = 16; p11->C_GetSlotList(CK_TRUE, sl, &ns); slot = sl[0]; }   /* the slot id derives from the serial after a restart */
	CK_RV r1 = p11->C_OpenSession(slot, CKF_SERIAL_SESSION | CKF_RW_SESSION, NULL, NULL, &s);
	CK_RV r2 = p11->C_Login(s, CKU_USER, (CK_UTF8CHAR_PTR)"1234", 4);
	if (r1 != CKR_OK || r2 != CKR_OK) printf("after re-initialisation: C_OpenSession -> 0x%lx, C_Login -> 0x%lx\n", r1, r2);
	int after = count_data_objects(s);
	printf("data objects found: %d before re-initialisation, %d after\n", before, after);
	if (rv == CKR_OK && after != 1) { printf("FAIL: the call returned CKR_OK but its effect was not persisted\n"); fails++; }
	if (rv != CKR_OK && after != 0) { printf("FAIL: the call failed but left an object behind\n"); fails++; }
	p11_done();
	printf(fails ? "VIOLATED\n" : "holds\n");
	return fails ? 1 : 0;
}
