/* F-C09-1: a failing C_CreateObject leaves the half-built object behind (SoftHSM::CreateObject returned the error of
 * saveTemplate without destroying the object it had created).  exit 0 = property holds, 1 = violated. */
#include "p11util.h"
#include <dirent.h>
static CK_ULONG count_objects(CK_SESSION_HANDLE s)
{
	CK_OBJECT_HANDLE h[64]; CK_ULONG n = 0;
	p11->C_FindObjectsInit(s, NULL, 0); p11->C_FindObjects(s, h, 64, &n); p11->C_FindObjectsFinal(s);
	return n;
}
static int count_files(void)
{
	char cmd[400]; snprintf(cmd, sizeof cmd, "find %s/tokens -name '*.object' | wc -l", tmpd);
	FILE* p = popen(cmd, "r"); int n = -1; if (p) { if (fscanf(p, "%d", &n) != 1) n = -1; pclose(p); } return n;
}
int main(int argc, char** argv)
{
	if (p11_setup(argv[1], NULL)) return 2;
	CK_SLOT_ID slot = p11_init_token("12345678", "1234");
	CK_SESSION_HANDLE s; p11->C_OpenSession(slot, CKF_SERIAL_SESSION | CKF_RW_SESSION, NULL, NULL, &s);
	p11->C_Login(s, CKU_USER, (CK_UTF8CHAR_PTR)"1234", 4);
	CK_OBJECT_CLASS cls = CKO_DATA; CK_BBOOL t = CK_TRUE, f = CK_FALSE; CK_BYTE mod[] = { 1, 2, 3, 4 };
	for (int tok = 0; tok < 2; tok++)
	{
		CK_ATTRIBUTE tpl[] = { { CKA_CLASS, &cls, sizeof cls }, { CKA_TOKEN, tok ? &t : &f, 1 }, { CKA_PRIVATE, &f, 1 }, { CKA_LABEL, "x", 1 },
		                       { CKA_MODULUS, mod, sizeof mod } /* not an attribute of a data object */ };
		CK_ULONG before = count_objects(s); int fbefore = count_files();
		CK_OBJECT_HANDLE h = 0;
		CK_RV rv = p11->C_CreateObject(s, tpl, 5, &h);
		if (rv == CKR_OK) { printf("unexpected success\n"); return 2; }
		CK_ULONG after = count_objects(s); int fafter = count_files();
		if (after != before) { printf("FAIL %s object: failed C_CreateObject (0x%lx) changed the visible object count %lu -> %lu\n", tok ? "token" : "session", rv, before, after); fails++; }
		if (fafter != fbefore) { printf("FAIL %s object: failed C_CreateObject left files behind: %d -> %d .object files\n", tok ? "token" : "session", fbefore, fafter); fails++; }
	}
	p11_done();
	printf(fails ? "VIOLATED\n" : "holds\n");
	return fails ? 1 : 0;
}
