/* F-C08-1: deriveSymmetric, CKM_CONCATENATE_BASE_AND_KEY: the last history assignment writes bNeverExtractable into
 * CKA_ALWAYS_SENSITIVE; CKA_NEVER_EXTRACTABLE is never derived.  PKCS#11 v2.40 2.31.3: both are true iff true on
 * both source keys.  exit 0 = property holds, 1 = violated. */
#include "p11util.h"
static CK_BBOOL getb(CK_SESSION_HANDLE s, CK_OBJECT_HANDLE o, CK_ATTRIBUTE_TYPE t) { CK_BBOOL v = 9; CK_ATTRIBUTE a = { t, &v, 1 }; p11->C_GetAttributeValue(s, o, &a, 1); return v; }
int main(int argc, char** argv)
{
	if (p11_setup(argv[1], NULL)) return 2;
	CK_SLOT_ID slot = p11_init_token("12345678", "1234");
	CK_SESSION_HANDLE s; p11->C_OpenSession(slot, CKF_SERIAL_SESSION | CKF_RW_SESSION, NULL, NULL, &s);
	p11->C_Login(s, CKU_USER, (CK_UTF8CHAR_PTR)"1234", 4);
	CK_MECHANISM gen = { CKM_GENERIC_SECRET_KEY_GEN, NULL, 0 }; CK_ULONG klen = 16; CK_BBOOL t = CK_TRUE, f = CK_FALSE;
	/* two generated keys: sensitive from birth (ALWAYS_SENSITIVE = true), extractable (NEVER_EXTRACTABLE = false) */
	CK_ATTRIBUTE tpl[] = { { CKA_VALUE_LEN, &klen, sizeof klen }, { CKA_DERIVE, &t, 1 }, { CKA_TOKEN, &f, 1 }, { CKA_SENSITIVE, &t, 1 }, { CKA_EXTRACTABLE, &t, 1 } };
	CK_OBJECT_HANDLE k1, k2, d;
	CHECK(p11->C_GenerateKey(s, &gen, tpl, 5, &k1), CKR_OK);
	CHECK(p11->C_GenerateKey(s, &gen, tpl, 5, &k2), CKR_OK);
	printf("sources: ALWAYS_SENSITIVE %d/%d NEVER_EXTRACTABLE %d/%d\n", getb(s, k1, CKA_ALWAYS_SENSITIVE), getb(s, k2, CKA_ALWAYS_SENSITIVE), getb(s, k1, CKA_NEVER_EXTRACTABLE), getb(s, k2, CKA_NEVER_EXTRACTABLE));
	CK_MECHANISM m = { CKM_CONCATENATE_BASE_AND_KEY, &k2, sizeof k2 };
	CK_OBJECT_CLASS cls = CKO_SECRET_KEY; CK_KEY_TYPE kt = CKK_GENERIC_SECRET;
	CK_ATTRIBUTE dt[] = { { CKA_CLASS, &cls, sizeof cls }, { CKA_KEY_TYPE, &kt, sizeof kt }, { CKA_TOKEN, &f, 1 } };
	CHECK(p11->C_DeriveKey(s, &m, k1, dt, 3, &d), CKR_OK);
	CK_BBOOL as = getb(s, d, CKA_ALWAYS_SENSITIVE), ne = getb(s, d, CKA_NEVER_EXTRACTABLE);
	printf("derived: ALWAYS_SENSITIVE %d NEVER_EXTRACTABLE %d\n", as, ne);
	if (as != CK_TRUE) { printf("FAIL derived CKA_ALWAYS_SENSITIVE is %d, both sources have it true\n", as); fails++; }
	if (ne != CK_FALSE) { printf("FAIL derived CKA_NEVER_EXTRACTABLE is %d, neither source has it true\n", ne); fails++; }
	p11_done();
	printf(fails ? "VIOLATED\n" : "holds\n");
	return fails ? 1 : 0;
}
