/* F-C12-2: CBC-PAD decryption with nothing buffered: C_DecryptFinal / C_DecryptUpdate(0 bytes) report an output
 * length of about 2^64 (unsigned underflow of "remaining - 1"); with a real buffer C_DecryptFinal answers
 * CKR_BUFFER_TOO_SMALL for ever.  exit 0 = property holds, 1 = violated. */
#include "p11util.h"
int main(int argc, char** argv)
{
	if (p11_setup(argv[1], NULL)) return 2;
	CK_SLOT_ID slot = p11_init_token("12345678", "1234");
	CK_SESSION_HANDLE s; p11->C_OpenSession(slot, CKF_SERIAL_SESSION | CKF_RW_SESSION, NULL, NULL, &s);
	p11->C_Login(s, CKU_USER, (CK_UTF8CHAR_PTR)"1234", 4);
	CK_MECHANISM gen = { CKM_AES_KEY_GEN, NULL, 0 }; CK_ULONG klen = 16; CK_BBOOL t = CK_TRUE, f = CK_FALSE;
	CK_ATTRIBUTE tpl[] = { { CKA_VALUE_LEN, &klen, sizeof klen }, { CKA_ENCRYPT, &t, 1 }, { CKA_DECRYPT, &t, 1 }, { CKA_TOKEN, &f, 1 } };
	CK_OBJECT_HANDLE k; CHECK(p11->C_GenerateKey(s, &gen, tpl, 4, &k), CKR_OK);
	CK_BYTE iv[16] = { 0 }; CK_MECHANISM m = { CKM_AES_CBC_PAD, iv, 16 };
	CK_ULONG len; CK_BYTE buf[64]; CK_RV rv;
	/* DecryptUpdate with zero bytes: length query must not exceed input + buffered + one block */
	CHECK(p11->C_DecryptInit(s, &m, k), CKR_OK);
	len = 0; rv = p11->C_DecryptUpdate(s, buf, 0, NULL, &len);
	if (rv == CKR_OK && len > 16) { printf("FAIL C_DecryptUpdate(0 bytes) size query reports %lu (0x%lx)\n", len, len); fails++; }
	/* DecryptFinal with nothing buffered */
	len = 0; rv = p11->C_DecryptFinal(s, NULL, &len);
	if (rv == CKR_OK && len > 16) { printf("FAIL C_DecryptFinal size query reports %lu (0x%lx)\n", len, len); fails++; }
	len = sizeof buf; rv = p11->C_DecryptFinal(s, buf, &len);
	if (rv == CKR_BUFFER_TOO_SMALL) { printf("FAIL C_DecryptFinal with a 64-byte buffer: CKR_BUFFER_TOO_SMALL, wants %lu\n", len); fails++; }
	p11_done();
	printf(fails ? "VIOLATED\n" : "holds\n");
	return fails ? 1 : 0;
}
