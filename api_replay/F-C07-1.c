/* F-C07-1: mechanisms removed by slots.mechanisms are still accepted by C_DigestInit, C_GenerateKey and
 * C_GenerateKeyPair (only the keyed *Init / wrap / unwrap / derive entries consult the configured list).
 * exit 0 = property holds, 1 = violated. */
#include "p11util.h"
int main(int argc, char** argv)
{
	if (p11_setup(argv[1], "slots.mechanisms = -CKM_SHA256,CKM_AES_KEY_GEN,CKM_EC_KEY_PAIR_GEN")) return 2;
	CK_SLOT_ID slot = p11_init_token("12345678", "1234");
	CK_SESSION_HANDLE s; p11->C_OpenSession(slot, CKF_SERIAL_SESSION | CKF_RW_SESSION, NULL, NULL, &s);
	p11->C_Login(s, CKU_USER, (CK_UTF8CHAR_PTR)"1234", 4);
	/* control: the list the token advertises does not contain the three mechanisms */
	CK_MECHANISM_TYPE list[256]; CK_ULONG n = 256; CHECK(p11->C_GetMechanismList(slot, list, &n), CKR_OK);
	for (CK_ULONG i = 0; i < n; i++) if (list[i] == CKM_SHA256 || list[i] == CKM_AES_KEY_GEN || list[i] == CKM_EC_KEY_PAIR_GEN) { printf("FAIL advertised 0x%lx\n", list[i]); fails++; }
	/* control: a mechanism that was not removed still works */
	CK_MECHANISM sha1 = { CKM_SHA_1, NULL, 0 }; CK_BYTE out[64]; CK_ULONG outl = sizeof out;
	CHECK(p11->C_DigestInit(s, &sha1), CKR_OK); CHECK(p11->C_Digest(s, (CK_BYTE_PTR)"abc", 3, out, &outl), CKR_OK);
	/* the finding */
	CK_MECHANISM sha256 = { CKM_SHA256, NULL, 0 };
	CHECK(p11->C_DigestInit(s, &sha256), CKR_MECHANISM_INVALID);
	CK_MECHANISM aesgen = { CKM_AES_KEY_GEN, NULL, 0 }; CK_ULONG len = 16; CK_BBOOL f = CK_FALSE;
	CK_ATTRIBUTE t[] = { { CKA_VALUE_LEN, &len, sizeof len }, { CKA_TOKEN, &f, 1 } }; CK_OBJECT_HANDLE h;
	CHECK(p11->C_GenerateKey(s, &aesgen, t, 2, &h), CKR_MECHANISM_INVALID);
	CK_MECHANISM ecgen = { CKM_EC_KEY_PAIR_GEN, NULL, 0 }; CK_BYTE p256[] = { 0x06, 0x08, 0x2a, 0x86, 0x48, 0xce, 0x3d, 0x03, 0x01, 0x07 };
	CK_ATTRIBUTE pub[] = { { CKA_EC_PARAMS, p256, sizeof p256 }, { CKA_TOKEN, &f, 1 } }; CK_ATTRIBUTE prv[] = { { CKA_TOKEN, &f, 1 } }; CK_OBJECT_HANDLE hp, hs;
	CHECK(p11->C_GenerateKeyPair(s, &ecgen, pub, 2, prv, 1, &hp, &hs), CKR_MECHANISM_INVALID);
	p11_done();
	printf(fails ? "VIOLATED\n" : "holds\n");
	return fails ? 1 : 0;
}
