/* F-C07-3: AsymSignInit / AsymVerifyInit have no key-type check: C_SignInit with a mechanism of another key family
 * (RSA or DSA mechanism on an EC private key, ...) starts successfully.  exit 0 = property holds, 1 = violated. */
#include "p11util.h"
int main(int argc, char** argv)
{
	if (p11_setup(argv[1], NULL)) return 2;
	CK_SLOT_ID slot = p11_init_token("12345678", "1234");
	CK_SESSION_HANDLE s; p11->C_OpenSession(slot, CKF_SERIAL_SESSION | CKF_RW_SESSION, NULL, NULL, &s);
	p11->C_Login(s, CKU_USER, (CK_UTF8CHAR_PTR)"1234", 4);
	CK_BBOOL t = CK_TRUE, f = CK_FALSE;
	/* EC P-256 key pair */
	CK_BYTE p256[] = { 0x06, 0x08, 0x2a, 0x86, 0x48, 0xce, 0x3d, 0x03, 0x01, 0x07 };
	CK_MECHANISM ecgen = { CKM_EC_KEY_PAIR_GEN, NULL, 0 };
	CK_ATTRIBUTE epub[] = { { CKA_EC_PARAMS, p256, sizeof p256 }, { CKA_VERIFY, &t, 1 }, { CKA_TOKEN, &f, 1 } };
	CK_ATTRIBUTE eprv[] = { { CKA_SIGN, &t, 1 }, { CKA_TOKEN, &f, 1 } };
	CK_OBJECT_HANDLE hpub, hprv;
	CHECK(p11->C_GenerateKeyPair(s, &ecgen, epub, 3, eprv, 2, &hpub, &hprv), CKR_OK);
	CK_MECHANISM_TYPE wrong[] = { CKM_RSA_PKCS, CKM_SHA256_RSA_PKCS, CKM_DSA, CKM_DSA_SHA1, CKM_EDDSA };
	const char* names[] = { "CKM_RSA_PKCS", "CKM_SHA256_RSA_PKCS", "CKM_DSA", "CKM_DSA_SHA1", "CKM_EDDSA" };
	for (int i = 0; i < 5; i++)
	{
		CK_MECHANISM m = { wrong[i], NULL, 0 };
		printf("C_SignInit(%s)...\n", names[i]); fflush(stdout); CK_RV rv = p11->C_SignInit(s, &m, hprv); printf(" -> 0x%lx\n", rv); fflush(stdout);
		if (rv == CKR_OK)
		{
			printf("FAIL C_SignInit(%s) on an EC private key returned CKR_OK\n", names[i]); fails++;
			CK_BYTE sig[512]; CK_ULONG sl = sizeof sig; CK_BYTE data[20] = { 0 };
			rv = p11->C_Sign(s, data, sizeof data, sig, &sl);     /* ends the operation */
			printf("     following C_Sign -> 0x%lx\n", rv);
		}
		printf("C_VerifyInit(%s)...\n", names[i]); fflush(stdout); rv = p11->C_VerifyInit(s, &m, hpub); printf(" -> 0x%lx\n", rv); fflush(stdout);
		if (rv == CKR_OK)
		{
			printf("FAIL C_VerifyInit(%s) on an EC public key returned CKR_OK\n", names[i]); fails++;
			CK_BYTE sig[64] = { 0 }; CK_BYTE data[20] = { 0 };
			rv = p11->C_Verify(s, data, sizeof data, sig, sizeof sig);
			printf("     following C_Verify -> 0x%lx\n", rv);
		}
	}
	p11_done();
	printf(fails ? "VIOLATED\n" : "holds\n");
	return fails ? 1 : 0;
}
