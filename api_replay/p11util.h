/* helper for API-level replays of findings against a built libsofthsm2.so (path in argv[1]) */
#include <stdio.h>
#include <stdlib.h>
#include <string.h>
#include <dlfcn.h>
#include <unistd.h>
#include <sys/stat.h>
#include "cryptoki.h"
static CK_FUNCTION_LIST_PTR p11;
#define CHECK(call, want) do { CK_RV r_ = (call); if (r_ != (want)) { printf("FAIL %s -> 0x%lx (wanted 0x%lx) line %d\n", #call, r_, (CK_RV)(want), __LINE__); fails++; } } while (0)
static int fails;
static char tmpd[256];
static int p11_setup(const char* lib, const char* extra_conf)
{
	snprintf(tmpd, sizeof tmpd, "/tmp/vp_api_%d", (int)getpid());
	char cmd[600]; snprintf(cmd, sizeof cmd, "rm -rf %s && mkdir -p %s/tokens", tmpd, tmpd); if (system(cmd)) return 1;
	char conf[300]; snprintf(conf, sizeof conf, "%s/softhsm2.conf", tmpd);
	FILE* f = fopen(conf, "w"); fprintf(f, "directories.tokendir = %s/tokens\nobjectstore.backend = file\nlog.level = ERROR\n%s\n", tmpd, extra_conf ? extra_conf : ""); fclose(f);
	setenv("SOFTHSM2_CONF", conf, 1);
	void* h = dlopen(lib, RTLD_NOW); if (!h) { printf("dlopen: %s\n", dlerror()); return 1; }
	CK_C_GetFunctionList gfl = (CK_C_GetFunctionList)dlsym(h, "C_GetFunctionList"); if (!gfl || gfl(&p11) != CKR_OK) return 1;
	if (p11->C_Initialize(NULL) != CKR_OK) return 1;
	return 0;
}
static CK_SLOT_ID p11_init_token(const char* sopin, const char* userpin)
{
	CK_SLOT_ID slots[16]; CK_ULONG n = 16; p11->C_GetSlotList(CK_FALSE, slots, &n);
	CK_SLOT_ID slot = slots[n - 1];
	CK_UTF8CHAR label[32]; memset(label, ' ', 32); memcpy(label, "vp", 2);
	if (p11->C_InitToken(slot, (CK_UTF8CHAR_PTR)sopin, strlen(sopin), label) != CKR_OK) { printf("inittoken failed\n"); exit(2); }
	n = 16; p11->C_GetSlotList(CK_TRUE, slots, &n); slot = slots[0];
	CK_SESSION_HANDLE s; p11->C_OpenSession(slot, CKF_SERIAL_SESSION | CKF_RW_SESSION, NULL, NULL, &s);
	p11->C_Login(s, CKU_SO, (CK_UTF8CHAR_PTR)sopin, strlen(sopin));
	p11->C_InitPIN(s, (CK_UTF8CHAR_PTR)userpin, strlen(userpin));
	p11->C_Logout(s); p11->C_CloseSession(s);
	return slot;
}
static void p11_done(void) { p11->C_Finalize(NULL); char cmd[300]; snprintf(cmd, sizeof cmd, "rm -rf %s", tmpd); system(cmd); }
