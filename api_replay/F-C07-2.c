/* F-C07-2: C_EncryptInit with an RSA public key ignores CKA_ALLOWED_MECHANISMS (AsymEncryptInit never calls
 * isMechanismPermitted).  exit 0 = property holds, 1 = violated. */
#include "p11util.h"
int main(int argc, char** argv)
{
	if (p11_setup(argv[1], NULL)) return 2;
	CK_SLOT_ID slot = p11_init_token("12345678", "1234");
	CK_SESSION_HANDLE s; p11->C_OpenSession(slot, CKF_SERIAL_SESSION | CKF_RW_SESSION, NULL, NULL, &s);
	p11->C_Login(s, CKU_USER, (CK_UTF8CHAR_PTR)"1234", 4);
	CK_MECHANISM gen = { CKM_RSA_PKCS_KEY_PAIR_GEN, NULL, 0 };
	CK_ULONG bits = 1024; CK_BYTE e[] = { 1, 0, 1 }; CK_BBOOL t = CK_TRUE, f = CK_FALSE;
	CK_MECHANISM_TYPE allowed[] = { CKM_RSA_PKCS_OAEP };
	CK_ATTRIBUTE pub[] = { { CKA_ENCRYPT, &t, 1 }, { CKA_VERIFY, &t, 1 }, { CKA_TOKEN, &f, 1 }, { CKA_MODULUS_BITS, &bits, sizeof bits },
	                       { CKA_PUBLIC_EXPONENT, e, 3 }, { CKA_ALLOWED_MECHANISMS, allowed, sizeof allowed } };
	CK_ATTRIBUTE prv[] = { { CKA_DECRYPT, &t, 1 }, { CKA_SIGN, &t, 1 }, { CKA_TOKEN, &f, 1 }, { CKA_ALLOWED_MECHANISMS, allowed, sizeof allowed } };
	CK_OBJECT_HANDLE hpub, hprv;
	CHECK(p11->C_GenerateKeyPair(s, &gen, pub, 6, prv, 4, &hpub, &hprv), CKR_OK);
	CK_MECHANISM pkcs = { CKM_RSA_PKCS, NULL, 0 };
	/* control: the private-key side honours the list */
	CHECK(p11->C_DecryptInit(s, &pkcs, hprv), CKR_MECHANISM_INVALID);
	/* the finding: the public-key side must refuse as well */
	CHECK(p11->C_EncryptInit(s, &pkcs, hpub), CKR_MECHANISM_INVALID);
	p11_done();
	printf(fails ? "VIOLATED\n" : "holds\n");
	return fails ? 1 : 0;
}
