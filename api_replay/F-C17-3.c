/* F-C17-3 candidate: C_Sign / C_Verify with CKM_RSA_X_509 and more data than the modulus: AsymSign computes
 * data.wipe(size - ulDataLen) with an unsigned underflow -> resize(~2^64) -> exception -> exit().  exit 0 = holds, 1 = violated
 * (the child process died / exited instead of returning a CKR_* code). */
#include "p11util.h"
#include <sys/wait.h>
int main(int argc, char** argv)
{
	if (p11_setup(argv[1], NULL)) return 2;
	CK_SLOT_ID slot = p11_init_token("12345678", "1234");
	CK_SESSION_HANDLE s; p11->C_OpenSession(slot, CKF_SERIAL_SESSION | CKF_RW_SESSION, NULL, NULL, &s);
	p11->C_Login(s, CKU_USER, (CK_UTF8CHAR_PTR)"1234", 4);
	CK_MECHANISM gen = { CKM_RSA_PKCS_KEY_PAIR_GEN, NULL, 0 };
	CK_ULONG bits = 1024; CK_BYTE e[] = { 1, 0, 1 }; CK_BBOOL t = CK_TRUE, f = CK_FALSE;
	CK_ATTRIBUTE pub[] = { { CKA_VERIFY, &t, 1 }, { CKA_ENCRYPT, &t, 1 }, { CKA_TOKEN, &f, 1 }, { CKA_MODULUS_BITS, &bits, sizeof bits }, { CKA_PUBLIC_EXPONENT, e, 3 } };
	CK_ATTRIBUTE prv[] = { { CKA_SIGN, &t, 1 }, { CKA_DECRYPT, &t, 1 }, { CKA_TOKEN, &f, 1 } };
	CK_OBJECT_HANDLE hpub, hprv;
	CHECK(p11->C_GenerateKeyPair(s, &gen, pub, 5, prv, 3, &hpub, &hprv), CKR_OK);
	CK_MECHANISM raw = { CKM_RSA_X_509, NULL, 0 };
	CK_BYTE data[200]; memset(data, 1, sizeof data); CK_BYTE sig[256]; CK_ULONG siglen = sizeof sig;
	const char* what[] = { "C_Sign", "C_Verify", "C_Encrypt" };
	for (int k = 0; k < 3; k++)
	{
		fflush(stdout);
		pid_t pid = fork();
		if (pid == 0)
		{
			CK_RV rv = 0;
			if (k == 0) { p11->C_SignInit(s, &raw, hprv); rv = p11->C_Sign(s, data, sizeof data, sig, &siglen); }
			if (k == 1) { p11->C_VerifyInit(s, &raw, hpub); rv = p11->C_Verify(s, data, sizeof data, sig, 128); }
			if (k == 2) { p11->C_EncryptInit(s, &raw, hpub); rv = p11->C_Encrypt(s, data, sizeof data, sig, &siglen); }
			printf("%s(200 bytes, RSA-1024, CKM_RSA_X_509) returned 0x%lx\n", what[k], rv); fflush(stdout);
			_exit(100);
		}
		int st = 0; waitpid(pid, &st, 0);
		if (!(WIFEXITED(st) && WEXITSTATUS(st) == 100)) { printf("FAIL %s: the process %s (status 0x%x) instead of returning a CKR_* code\n", what[k], WIFSIGNALED(st) ? "was killed" : "exited", st); fails++; }
	}
	p11_done();
	printf(fails ? "VIOLATED\n" : "holds\n");
	return fails ? 1 : 0;
}
