#ifndef VP_DASYM_SHARED_H
#define VP_DASYM_SHARED_H
#include "softhsm_env.h"
enum vp_in_idx { I_keyType, I_isOnToken, I_isPrivate, I_create_rv, I_algoNull, I_newPrivNull, I_newPubNull, I_getPriv_rv, I_getPub_rv, I_derive_ok, I_secret_len,
                 I_kdf, I_sharedLen, I_sharedNull, I_pubLen, I_pubNull, VP_IN_N };
enum vp_out_idx { O_create_n, O_create_op, O_create_count, O_h, O_derive_n, O_getalgo_kind, O_getpriv_kind, O_getpub_kind, O_recycle_secret_n, O_recycle_algo_n, O_pub_len, VP_OUT_N };
VP_C_BEGIN
extern CK_ULONG vp_in[VP_IN_N];
extern unsigned char vp_in_secret[32];
extern unsigned char vp_in_data[8];
extern CK_ULONG vp_out[VP_OUT_N];
VP_C_END
#define IN(x) vp_in[(int)I_##x]
#define OUT(x) vp_out[(int)O_##x]
#define VP_NEW_HANDLE 777UL
#endif
