// environment of SoftHSM::deriveECDH / deriveEDDSA / deriveDH (same translation unit as the sliced SoftHSM.cpp under cbmc)
#include "CryptoFactory.h"
#include "SymmetricKey.h"
#include "DESKey.h"
#include "AESKey.h"
#include "shared.h"

CK_RV SoftHSM::CreateObject(CK_SESSION_HANDLE, CK_ATTRIBUTE_PTR, CK_ULONG ulCount, CK_OBJECT_HANDLE_PTR phObject, int op)
{
	OUT(create_n)++; OUT(create_op) = (CK_ULONG)op; OUT(create_count) = ulCount;
	if (IN(create_rv) != CKR_OK) return IN(create_rv);
	SFX(CREATE_N)++;
	*phObject = VP_NEW_HANDLE;
	return CKR_OK;
}
static long vp_cf_store[8], vp_algo_store[16], vp_priv_store[64], vp_pub_store[64];
CryptoFactory* CryptoFactory::i() { return (CryptoFactory*)(void*)&vp_cf_store[0]; }
AsymmetricAlgorithm* CryptoFactory::getAsymmetricAlgorithm(AsymAlgo::Type algorithm)
{
	OUT(getalgo_kind) = (CK_ULONG)algorithm;
	return IN(algoNull) ? (AsymmetricAlgorithm*)0 : (AsymmetricAlgorithm*)(void*)&vp_algo_store[0];
}
void CryptoFactory::recycleAsymmetricAlgorithm(AsymmetricAlgorithm*) { OUT(recycle_algo_n)++; }
PrivateKey* AsymmetricAlgorithm::newPrivateKey() { return IN(newPrivNull) ? (PrivateKey*)0 : (PrivateKey*)(void*)&vp_priv_store[0]; }
PublicKey* AsymmetricAlgorithm::newPublicKey() { return IN(newPubNull) ? (PublicKey*)0 : (PublicKey*)(void*)&vp_pub_store[0]; }
void AsymmetricAlgorithm::recyclePrivateKey(PrivateKey*) {}
void AsymmetricAlgorithm::recyclePublicKey(PublicKey*) {}
// the key agreement: fails, or yields a secret of IN(secret_len) ghost bytes (a heap object, as the real one)
typedef SymmetricKey vp_symkey_t;
bool AsymmetricAlgorithm::deriveKey(SymmetricKey** ppSymmetricKey, PublicKey*, PrivateKey*)
{
	OUT(derive_n)++;
	if (!IN(derive_ok)) return false;
	vp_symkey_t* k = VP_RAW_NEW(vp_symkey_t);
	CK_ULONG n = IN(secret_len);
	VP_INIT_CONTAINER(k->keyData.byteString); VP_BV_SET_LEN(k->keyData.byteString, n);
	for (int i = 0; i < 32; i++) if (VP_BV_ROOM(k->keyData.byteString, i)) VP_BV_AT(k->keyData.byteString, i) = vp_in_secret[i];
	k->bitLen = n * 8;
	*ppSymmetricKey = k;
	return true;
}
void AsymmetricAlgorithm::recycleSymmetricKey(SymmetricKey*) { OUT(recycle_secret_n)++; }
const ByteString& SymmetricKey::getKeyBits() const { return (ByteString&)keyData; }
void SymmetricKey::setBitLen(const size_t inBitLen) { bitLen = inBitLen; }
static ByteString vp_kcv() { ByteString v(vp_in_data, 3); return v; }
ByteString SymmetricKey::getKeyCheckValue() const { return vp_kcv(); }
ByteString DESKey::getKeyCheckValue() const { return vp_kcv(); }
ByteString AESKey::getKeyCheckValue() const { return vp_kcv(); }
// key loading: which family was asked for (3 EC, 4 ED, 5 DH)
CK_RV SoftHSM::getECPrivateKey(ECPrivateKey*, Token*, OSObject*) { OUT(getpriv_kind) = 3; return IN(getPriv_rv); }
CK_RV SoftHSM::getEDPrivateKey(EDPrivateKey*, Token*, OSObject*) { OUT(getpriv_kind) = 4; return IN(getPriv_rv); }
CK_RV SoftHSM::getDHPrivateKey(DHPrivateKey*, Token*, OSObject*) { OUT(getpriv_kind) = 5; return IN(getPriv_rv); }
CK_RV SoftHSM::getECDHPublicKey(ECPublicKey*, ECPrivateKey*, ByteString& pubData) { OUT(getpub_kind) = 3; OUT(pub_len) = pubData.size(); return IN(getPub_rv); }
CK_RV SoftHSM::getEDDHPublicKey(EDPublicKey*, EDPrivateKey*, ByteString& pubData) { OUT(getpub_kind) = 4; OUT(pub_len) = pubData.size(); return IN(getPub_rv); }
CK_RV SoftHSM::getDHPublicKey(DHPublicKey*, DHPrivateKey*, ByteString& pubParams) { OUT(getpub_kind) = 5; OUT(pub_len) = pubParams.size(); return IN(getPub_rv); }

#define MKCALL(fn) \
	VP_MK_HSM(); \
	unsigned char pub[8]; for (int i = 0; i < 8; i++) pub[i] = vp_in_data[i]; \
	VP_MK_TMPL(); \
	CK_OBJECT_HANDLE h = 0x1234; \
	CK_RV rv = hsm->fn(SES(HSESSION), &mech, SES(HARG0), &tmpl[0], SES(TCOUNT), &h, IN(keyType), IN(isOnToken) ? CK_TRUE : CK_FALSE, IN(isPrivate) ? CK_TRUE : CK_FALSE); \
	OUT(h) = h; return rv
#define MK_EC_PARAMS() \
	CK_ECDH1_DERIVE_PARAMS p; p.kdf = IN(kdf); p.ulSharedDataLen = IN(sharedLen); p.pSharedData = IN(sharedNull) ? NULL_PTR : &pub[0]; \
	p.ulPublicDataLen = IN(pubLen); p.pPublicData = IN(pubNull) ? NULL_PTR : &pub[0]; \
	CK_MECHANISM mech; mech.mechanism = CKM_ECDH1_DERIVE; mech.pParameter = SES(MECH_PARAM_NULL) ? NULL_PTR : (CK_VOID_PTR)&p; mech.ulParameterLen = SES(MECH_PARAM_LEN)
extern "C" CK_RV vp_derive_ecdh(void) { VP_MK_HSM(); unsigned char pub[8]; for (int i = 0; i < 8; i++) pub[i] = vp_in_data[i]; MK_EC_PARAMS(); VP_MK_TMPL(); CK_OBJECT_HANDLE h = 0x1234;
	CK_RV rv = hsm->deriveECDH(SES(HSESSION), &mech, SES(HARG0), &tmpl[0], SES(TCOUNT), &h, IN(keyType), IN(isOnToken) ? CK_TRUE : CK_FALSE, IN(isPrivate) ? CK_TRUE : CK_FALSE); OUT(h) = h; return rv; }
extern "C" CK_RV vp_derive_eddsa(void) { VP_MK_HSM(); unsigned char pub[8]; for (int i = 0; i < 8; i++) pub[i] = vp_in_data[i]; MK_EC_PARAMS(); VP_MK_TMPL(); CK_OBJECT_HANDLE h = 0x1234;
	CK_RV rv = hsm->deriveEDDSA(SES(HSESSION), &mech, SES(HARG0), &tmpl[0], SES(TCOUNT), &h, IN(keyType), IN(isOnToken) ? CK_TRUE : CK_FALSE, IN(isPrivate) ? CK_TRUE : CK_FALSE); OUT(h) = h; return rv; }
extern "C" CK_RV vp_derive_dh(void) { VP_MK_HSM(); unsigned char pub[8]; for (int i = 0; i < 8; i++) pub[i] = vp_in_data[i];
	CK_MECHANISM mech; mech.mechanism = CKM_DH_PKCS_DERIVE; mech.pParameter = SES(MECH_PARAM_NULL) ? NULL_PTR : (CK_VOID_PTR)&pub[0]; mech.ulParameterLen = IN(pubLen);
	VP_MK_TMPL(); CK_OBJECT_HANDLE h = 0x1234;
	CK_RV rv = hsm->deriveDH(SES(HSESSION), &mech, SES(HARG0), &tmpl[0], SES(TCOUNT), &h, IN(keyType), IN(isOnToken) ? CK_TRUE : CK_FALSE, IN(isPrivate) ? CK_TRUE : CK_FALSE); OUT(h) = h; return rv; }
