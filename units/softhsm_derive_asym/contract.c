/* SoftHSM::deriveECDH / deriveEDDSA / deriveDH, whole functions (the key agreement itself is assumed: it fails or yields
 * a ghost secret of 0..32 bytes).
 * C17: a failed key agreement (or any earlier failure) ends the call with an error - the missing secret is never
 *      touched, nothing is created.  C13: the key value is the secret cut to the requested length (CKA_VALUE_LEN, or the
 *      default of the key type); a secret that is too short is an error.  C08: derived keys are not local; ALWAYS_SENSITIVE
 *      / NEVER_EXTRACTABLE only if the base key has them and the new key is sensitive / not extractable.
 * C06: a private derived key's value is stored as the output of Token::encrypt.  C09: a failure after the object was
 *      created removes object and handle again. */
#include "shared.h"
CK_ULONG vp_in[VP_IN_N];
unsigned char vp_in_secret[32];
unsigned char vp_in_data[8];
CK_ULONG vp_out[VP_OUT_N];
CK_RV vp_rv;
VP_SOFTHSM_CALLEE_CONTRACTS

#define RV __CPROVER_return_value
#define CREATED (SFX(CREATE_N) > 0)
#define LOGN 10
static CK_ULONG last_bool(CK_ATTRIBUTE_TYPE type)
{
  CK_ULONG v = 2;
  for (CK_ULONG i = 0; i < LOGN; i++) if (i < CNT(LOG) && LOGF(i, KIND) == E_SET_BOOL && LOGF(i, OBJ) == 2 && LOGF(i, TYPE) == type) v = LOGF(i, VAL);
  return v;
}
static long value_idx(void)
{
  for (CK_ULONG i = 0; i < LOGN; i++) if (i < CNT(LOG) && LOGF(i, KIND) == E_SET_BYTES && LOGF(i, OBJ) == 2 && LOGF(i, TYPE) == CKA_VALUE) return (long)i;
  return -1;
}
/* the template: CKA_VALUE_LEN (last well-sized entry), presence of CKA_VALUE */
#define NT (SES(TCOUNT) < VP_TMPL_MAX ? SES(TCOUNT) : VP_TMPL_MAX)
static int t_has(CK_ATTRIBUTE_TYPE t) { for (CK_ULONG i = 0; i < VP_TMPL_MAX; i++) if (i < NT && TMPL(i, TYPE) == t) return 1; return 0; }
static CK_ULONG t_vlen(void) { CK_ULONG v = 0; for (CK_ULONG i = 0; i < VP_TMPL_MAX; i++) if (i < NT && TMPL(i, TYPE) == CKA_VALUE_LEN && TMPL(i, LEN) == 8) v = TMPL(i, VAL); return v; }
/* length of the key value the function must store, for the EC flavours (0 requested = the type's default) */
static CK_ULONG want_len_ec(void)
{
  CK_ULONG b = t_vlen(); CK_ULONG s = IN(secret_len);
  if (IN(keyType) == CKK_DES) return 8;
  if (IN(keyType) == CKK_DES2) return 16;
  if (IN(keyType) == CKK_DES3) return 24;
  if (b != 0) return b;
  if (IN(keyType) == CKK_GENERIC_SECRET) return s;
  return s >= 32 ? 32 : s >= 24 ? 24 : 16;
}
static CK_ULONG want_len_dh(void)
{
  if (IN(keyType) == CKK_DES) return 8;
  if (IN(keyType) == CKK_DES2) return 16;
  if (IN(keyType) == CKK_DES3) return 24;
  return t_vlen();
}
#define GOOD_SESSION (SES(VALID) && !SES(TOKEN_NULL))
#define EC_PARAMS_OK (!SES(MECH_PARAM_NULL) && SES(MECH_PARAM_LEN) == sizeof(CK_ECDH1_DERIVE_PARAMS) && IN(kdf) == CKD_NULL && IN(sharedLen) == 0 && IN(sharedNull) && IN(pubLen) != 0 && !IN(pubNull))
#define DH_PARAMS_OK (!SES(MECH_PARAM_NULL) && IN(pubLen) != 0)
#define NOTHING (OUT(create_n) == 0 && OUT(derive_n) == 0 && CNT(SET) == 0 && CNT(ENCRYPT) == 0 && OUT(h) == CK_INVALID_HANDLE)

#define PRE \
  __CPROVER_requires(VP_FRESH_GHOST && SES(HOBJ0) != SES(HOBJ1) && SES(HOBJ0) != VP_NEW_HANDLE && SES(HOBJ1) != VP_NEW_HANDLE && SES(HARG0) == SES(HOBJ0)) \
  __CPROVER_requires(SES(TCOUNT) <= VP_TMPL_MAX && TMPL(0, LEN) <= 8 && TMPL(1, LEN) <= 8 && !TMPL(0, NULL) && !TMPL(1, NULL) && IN(pubLen) <= 8 && IN(secret_len) <= 32) \
  __CPROVER_requires(OUT(create_n) == 0 && OUT(derive_n) == 0 && OUT(recycle_secret_n) == 0 && OUT(recycle_algo_n) == 0 && TOK(ENC_LEN) <= VP_ENC_MAX)
#define COMMON(PARAMS_OK, WANT) \
  __CPROVER_ensures(CNT(LOG) <= LOGN) \
  __CPROVER_ensures((!(PARAMS_OK) || !GOOD_SESSION || t_has(CKA_VALUE)) ==> (RV != CKR_OK && NOTHING)) \
  /* C17 / C13: no secret -> error, nothing created, and (memory-safety obligations of the sliced text) nothing dereferenced */ \
  __CPROVER_ensures((OUT(derive_n) > 0 && !IN(derive_ok)) ==> (RV != CKR_OK && OUT(create_n) == 0 && CNT(SET) == 0 && OUT(h) == CK_INVALID_HANDLE)) \
  __CPROVER_ensures((OUT(create_n) > 0) ==> (OUT(create_n) == 1 && OUT(derive_n) == 1 && IN(derive_ok) && OUT(create_op) == 0x3)) \
  __CPROVER_ensures((IN(algoNull) || IN(newPrivNull) || IN(newPubNull) || IN(getPriv_rv) != CKR_OK || IN(getPub_rv) != CKR_OK) ==> (RV != CKR_OK && OUT(derive_n) == 0 && OUT(create_n) == 0)) \
  /* success */ \
  __CPROVER_ensures((RV == CKR_OK) ==> (CREATED && OUT(h) == VP_NEW_HANDLE && CNT(TX_COMMIT) == 1 && CNT(TX_ABORT) == 0 && SFX(HM_DESTROY_N) == 0 && CNT(DESTROY) == 0)) \
  /* C08 */ \
  __CPROVER_ensures((RV == CKR_OK) ==> (last_bool(CKA_LOCAL) == 0)) \
  __CPROVER_ensures((RV == CKR_OK && OBJB(0, ALWAYS_SENSITIVE) != 0) ==> (last_bool(CKA_ALWAYS_SENSITIVE) == ((OBJB(0, ALWAYS_SENSITIVE) == 2 && OBJBV(2, SENSITIVE, 0)) ? 1UL : 0UL))) \
  __CPROVER_ensures((RV == CKR_OK && OBJB(0, NEVER_EXTRACTABLE) != 0) ==> (last_bool(CKA_NEVER_EXTRACTABLE) == ((OBJB(0, NEVER_EXTRACTABLE) == 2 && !OBJBV(2, EXTRACTABLE, 0)) ? 1UL : 0UL))) \
  /* C13: the stored value has the wanted length (public: the plain bytes; private: the cipher text, see C06) */ \
  __CPROVER_ensures((RV == CKR_OK) ==> (value_idx() >= 0 && (WANT) <= IN(secret_len))) \
  __CPROVER_ensures((RV == CKR_OK && !IN(isPrivate) && value_idx() >= 0) ==> (LOGF(value_idx(), VAL) == (WANT))) \
  __CPROVER_ensures((CREATED && (WANT) > IN(secret_len)) ==> (RV != CKR_OK)) \
  /* C06 */ \
  __CPROVER_ensures((RV == CKR_OK && IN(isPrivate) && value_idx() >= 0) ==> (LOGF(value_idx(), PROV) == 1 || LOGF(value_idx(), VAL) == 0)) \
  /* C09 */ \
  __CPROVER_ensures((RV != CKR_OK && CREATED && SES(NEW_RESOLVES)) ==> (SFX(HM_DESTROY_N) == 1 && SFX(HM_DESTROY_H) == VP_NEW_HANDLE && CNT(DESTROY) == 1)) \
  __CPROVER_ensures((RV != CKR_OK) ==> (OUT(h) == CK_INVALID_HANDLE)) \
  __CPROVER_assigns(__CPROVER_object_whole(vp_out), VP_SOFTHSM_FRAME)

CK_RV vp_derive_ecdh(void) PRE
__CPROVER_ensures((OUT(derive_n) > 0) ==> (OUT(getalgo_kind) == 4 /* AsymAlgo::ECDH */ && OUT(getpriv_kind) == 3 && OUT(getpub_kind) == 3 && OUT(pub_len) == IN(pubLen)))
COMMON(EC_PARAMS_OK, want_len_ec());
CK_RV vp_derive_eddsa(void) PRE
__CPROVER_ensures((OUT(derive_n) > 0) ==> (OUT(getalgo_kind) == 7 /* AsymAlgo::EDDSA */ && OUT(getpriv_kind) == 4 && OUT(getpub_kind) == 4 && OUT(pub_len) == IN(pubLen)))
COMMON(EC_PARAMS_OK, want_len_ec());
CK_RV vp_derive_dh(void) PRE
__CPROVER_ensures((OUT(derive_n) > 0) ==> (OUT(getalgo_kind) == 3 /* AsymAlgo::DH */ && OUT(getpriv_kind) == 5 && OUT(getpub_kind) == 5 && OUT(pub_len) == IN(pubLen)))
COMMON(DH_PARAMS_OK, want_len_dh());

void vp_call_deriveECDH(void) { vp_rv = vp_derive_ecdh(); }
void vp_call_deriveEDDSA(void) { vp_rv = vp_derive_eddsa(); }
void vp_call_deriveDH(void) { vp_rv = vp_derive_dh(); }
#define HH(hn, call) void hn(void) { VP_HAVOC_SOFTHSM(); __CPROVER_havoc_object(vp_in); __CPROVER_havoc_object(vp_in_secret); __CPROVER_havoc_object(vp_in_data); call(); \
    VP_COVER(vp_rv == CKR_OK && IN(isPrivate) && IN(keyType) == CKK_GENERIC_SECRET && IN(secret_len) == 20); VP_COVER(vp_rv == CKR_OK && !IN(isPrivate) && IN(keyType) == CKK_AES && IN(secret_len) == 32); \
    VP_COVER(vp_rv == CKR_GENERAL_ERROR && OUT(derive_n) == 1 && !IN(derive_ok)); VP_COVER(vp_rv == CKR_FUNCTION_FAILED && CREATED); VP_COVER(vp_rv == CKR_OK && IN(keyType) == CKK_DES3); }
HH(h_ecdh, vp_call_deriveECDH) HH(h_eddsa, vp_call_deriveEDDSA) HH(h_dh, vp_call_deriveDH)
