// environment of OSSLDH::deriveKey / OSSLECDH::deriveKey (cbmc: included at the end of the sliced OSSLDH.cpp): the OpenSSL
// primitives are assumed - DH_compute_key / ECDH_compute_key write IN(keysize) ghost bytes (the shared secret with its leading
// zero bytes removed, as OpenSSL documents) and return that count
#include "config.h"
#include "OSSLDH.h"
#include "OSSLECDH.h"
#include "OSSLDHPublicKey.h"
#include "OSSLDHPrivateKey.h"
#include "OSSLECPublicKey.h"
#include "OSSLECPrivateKey.h"
#include "SymmetricKey.h"
#include "shared.h"
static long vp_dh_store[4], vp_bn_store[4], vp_ec_store[4], vp_pt_store[4];
DH* OSSLDHPublicKey::getOSSLKey() { return IN(pubNull) ? (DH*)0 : (DH*)(void*)&vp_dh_store[0]; }
DH* OSSLDHPrivateKey::getOSSLKey() { return IN(privNull) ? (DH*)0 : (DH*)(void*)&vp_dh_store[1]; }
EC_KEY* OSSLECPublicKey::getOSSLKey() { return IN(pubNull) ? (EC_KEY*)0 : (EC_KEY*)(void*)&vp_ec_store[0]; }
EC_KEY* OSSLECPrivateKey::getOSSLKey() { return IN(privNull) ? (EC_KEY*)0 : (EC_KEY*)(void*)&vp_ec_store[1]; }
unsigned long OSSLECPublicKey::getOrderLength() const { return IN(size); }
static int compute(unsigned char* key)
{
	OUT(compute_n)++;
	int ks = (int)IN(keysize);
	for (int i = 0; i < VP_SEC; i++) if (i < ks) key[i] = vp_in_secret[i];
	return ks;
}
extern "C" {
void DH_get0_key(const DH*, const BIGNUM** pub_key, const BIGNUM** priv_key) { if (pub_key) *pub_key = IN(bnNull) ? (const BIGNUM*)0 : (const BIGNUM*)(void*)&vp_bn_store[0]; if (priv_key) *priv_key = 0; }
int DH_size(const DH*) { return (int)IN(size); }
int DH_compute_key(unsigned char* key, const BIGNUM*, DH*) { return compute(key); }
const EC_POINT* EC_KEY_get0_public_key(const EC_KEY*) { return IN(bnNull) ? (const EC_POINT*)0 : (const EC_POINT*)(void*)&vp_pt_store[0]; }
int EC_KEY_set_method(EC_KEY*, const EC_KEY_METHOD*) { return 1; }
const EC_KEY_METHOD* EC_KEY_OpenSSL(void) { return (const EC_KEY_METHOD*)0; }
int ECDH_compute_key(void* out, size_t outlen, const EC_POINT*, const EC_KEY*, void* (*)(const void*, size_t, void*, size_t*)) { OUT(compute_outlen) = outlen; return compute((unsigned char*)out); }
unsigned long ERR_get_error(void) { return 0; }
}
static void run(int which)
{
	long algo_store[16]; long pub_store[64], prv_store[64];
	SymmetricKey* k = NULL;
	SymmetricKey** pp = IN(ppNull) ? (SymmetricKey**)0 : &k;
	PublicKey* pub = IN(pkNull) ? (PublicKey*)0 : (PublicKey*)(void*)&pub_store[0];
	PrivateKey* prv = (PrivateKey*)(void*)&prv_store[0];
	bool r = which == 0 ? ((OSSLDH*)(void*)&algo_store[0])->deriveKey(pp, pub, prv) : ((OSSLECDH*)(void*)&algo_store[0])->deriveKey(pp, pub, prv);
	OUT(ret) = r ? 1 : 0; OUT(key_null) = k == NULL;
	if (k != NULL)
	{
		OUT(bitlen) = k->getBitLen(); OUT(len) = k->getKeyBits().size();
		OUT(byte_w) = IN(w) < k->getKeyBits().size() ? k->getKeyBits().const_byte_str()[IN(w)] : 0x100;
	}
}
extern "C" void vp_dh(void) { run(0); }
extern "C" void vp_ecdh(void) { run(1); }
