#ifndef VP_OD_SHARED_H
#define VP_OD_SHARED_H
#include "vp.h"
#define VP_SEC 16
enum vp_in_idx { I_pubNull, I_privNull, I_bnNull, I_size, I_keysize, I_w, I_ppNull, I_pkNull, VP_IN_N };
enum vp_out_idx { O_ret, O_key_null, O_bitlen, O_len, O_byte_w, O_compute_n, O_compute_outlen, VP_OUT_N };
VP_C_BEGIN
extern CK_ULONG vp_in[VP_IN_N];
extern unsigned char vp_in_secret[VP_SEC];     /* what the OpenSSL primitive writes: the shared secret WITHOUT leading zero bytes */
extern CK_ULONG vp_out[VP_OUT_N];
VP_C_END
#define IN(x) vp_in[(int)I_##x]
#define OUT(x) vp_out[(int)O_##x]
#endif
