/* C13 ("a derived key has exactly the value the mechanism defines (shared secret)"): OSSLDH::deriveKey and
 * OSSLECDH::deriveKey hand out the shared secret as a byte string of exactly the size of the prime / the curve order:
 * the bytes the OpenSSL primitive produced (it drops leading zero bytes), right-aligned behind zero bytes.  The
 * primitive itself is assumed. */
#include "shared.h"
CK_ULONG vp_in[VP_IN_N];
unsigned char vp_in_secret[VP_SEC];
CK_ULONG vp_out[VP_OUT_N];
#define SIZE IN(size)
#define KS IN(keysize)
#define PAD (SIZE - KS)
#define ARGS_OK (!IN(ppNull) && !IN(pkNull) && !IN(pubNull) && !IN(privNull) && !IN(bnNull))
#define K_DERIVE \
__CPROVER_requires(SIZE >= 1 && SIZE <= VP_SEC && (long)KS <= (long)SIZE && (long)KS >= -2 && OUT(compute_n) == 0 && OUT(ret) == 0 && OUT(key_null) == 0) \
__CPROVER_ensures(OUT(ret) == ((ARGS_OK && (long)KS > 0) ? 1 : 0)) \
__CPROVER_ensures(!OUT(ret) ==> OUT(key_null)) \
/* the secret has the size of the prime / order, whatever the number of leading zero bytes of its value */ \
__CPROVER_ensures(OUT(ret) ==> (!OUT(key_null) && OUT(len) == SIZE && OUT(bitlen) == SIZE * 8 && OUT(compute_n) == 1)) \
/* ... and its value is the primitive's output right-aligned behind zero bytes (witness index over every position) */ \
__CPROVER_ensures((OUT(ret) && IN(w) < SIZE) ==> (OUT(byte_w) == (IN(w) < PAD ? 0 : vp_in_secret[IN(w) - PAD < VP_SEC ? IN(w) - PAD : 0]))) \
__CPROVER_assigns(__CPROVER_object_whole(vp_out))
void vp_dh(void) K_DERIVE;
void vp_ecdh(void) K_DERIVE;
void vp_call_dh(void) { vp_dh(); }
void vp_call_ecdh(void) { vp_ecdh(); }
#define COVERS VP_COVER(OUT(ret) && PAD == 2 && IN(w) == 1); VP_COVER(OUT(ret) && PAD == 0 && IN(w) == 15); VP_COVER(!OUT(ret) && ARGS_OK); VP_COVER(!OUT(ret) && IN(bnNull))
void h_dh(void) { __CPROVER_havoc_object(vp_in); __CPROVER_havoc_object(vp_in_secret); vp_call_dh(); COVERS; }
void h_ecdh(void) { __CPROVER_havoc_object(vp_in); __CPROVER_havoc_object(vp_in_secret); vp_call_ecdh(); COVERS; }
