#ifndef VP_MACINIT_SHARED_H
#define VP_MACINIT_SHARED_H
#include "softhsm_env.h"
enum vp_in_idx { I_algoNull, I_init_ok, VP_IN_N };
enum vp_out_idx { O_getalgo_n, O_getalgo_kind, O_recalgo_n, O_reckey_n, O_init_n, O_init_verify, O_init_keybits, O_init_keylen, O_init_key0, O_set_mac_n, O_set_key_n, O_set_multi, O_set_single, VP_OUT_N };
VP_C_BEGIN
extern CK_ULONG vp_in[VP_IN_N];
extern CK_ULONG vp_out[VP_OUT_N];
VP_C_END
#define IN(x) vp_in[(int)I_##x]
#define OUT(x) vp_out[(int)O_##x]
#endif
