/* The whole SoftHSM::MacSignInit / MacVerifyInit.  C07: the operation starts only if the usage flag (CKA_SIGN / CKA_VERIFY) is
 * true, the mechanism is permitted for this key, the key TYPE fits the mechanism (HMAC: generic secret or the matching
 * CKK_*_HMAC type; CKM_DES3_CMAC: CKK_DES2/CKK_DES3; CKM_AES_CMAC: CKK_AES) and the key is at least as long as the digest;
 * the MAC algorithm is the one the mechanism names.  C12: one operation per session; a failed start leaves none and gives
 * every crypto object back.  C01/C06: a private key's value is used only after Token::decrypt. */
#include "shared.h"
#include "k_gate.h"
CK_ULONG vp_in[VP_IN_N];
CK_ULONG vp_out[VP_OUT_N];
CK_RV vp_rv;
VP_SOFTHSM_CALLEE_CONTRACTS
#define M SES(MECH)
#define KT (OBJU_HAS(K0, KEY_TYPE) ? OBJU(K0, KEY_TYPE) : CKK_VENDOR_DEFINED)
/* MacAlgo: HMAC_MD5 1, HMAC_SHA1 2, HMAC_SHA224 3, HMAC_SHA256 4, HMAC_SHA384 5, HMAC_SHA512 6, CMAC_DES 8, CMAC_AES 9 */
#define ALGO_OF (M == CKM_MD5_HMAC ? 1 : M == CKM_SHA_1_HMAC ? 2 : M == CKM_SHA224_HMAC ? 3 : M == CKM_SHA256_HMAC ? 4 : M == CKM_SHA384_HMAC ? 5 : M == CKM_SHA512_HMAC ? 6 : M == CKM_DES3_CMAC ? 8 : M == CKM_AES_CMAC ? 9 : 0)
#define HMAC_TYPE (M == CKM_MD5_HMAC ? CKK_MD5_HMAC : M == CKM_SHA_1_HMAC ? CKK_SHA_1_HMAC : M == CKM_SHA224_HMAC ? CKK_SHA224_HMAC : M == CKM_SHA256_HMAC ? CKK_SHA256_HMAC : M == CKM_SHA384_HMAC ? CKK_SHA384_HMAC : CKK_SHA512_HMAC)
#define FITS (ALGO_OF == 0 ? 0 : ALGO_OF == 8 ? (KT == CKK_DES2 || KT == CKK_DES3) : ALGO_OF == 9 ? KT == CKK_AES : (KT == CKK_GENERIC_SECRET || KT == HMAC_TYPE))
#define MINBYTES (M == CKM_MD5_HMAC ? 16 : M == CKM_SHA_1_HMAC ? 20 : M == CKM_SHA224_HMAC ? 28 : M == CKM_SHA256_HMAC ? 32 : M == CKM_SHA384_HMAC ? 48 : M == CKM_SHA512_HMAC ? 64 : 0)
#define OUT_ZERO (OUT(getalgo_n) == 0 && OUT(recalgo_n) == 0 && OUT(reckey_n) == 0 && OUT(init_n) == 0 && OUT(set_mac_n) == 0 && OUT(set_key_n) == 0)
#define KPRIV OBJBV(K0, PRIVATE, 0)
#define DL (TOK(DEC_LEN) > VP_BS_MAX ? VP_BS_MAX : TOK(DEC_LEN))

#define K_MAC_INIT(FLAG, OPCODE, VERIFY) \
  __CPROVER_requires(VP_FRESH_GHOST && OUT_ZERO && !(TOK(SO) && TOK(USER)) && (!TOK(SO) || SES(RW)) && SES(HOBJ0) != SES(HOBJ1) && SES(OPTYPE) <= 0x10) \
  __CPROVER_ensures((SES(INIT) && SES(VALID) && !SES(MECH_NULL) && !SES(TOKEN_NULL) && SES(OPTYPE) != 0) ==> (RV == CKR_OPERATION_ACTIVE && VP_NO_EFFECT && OUT(getalgo_n) == 0)) \
  __CPROVER_ensures((!SES(INIT) || !SES(VALID) || SES(MECH_NULL) || SES(TOKEN_NULL) || !KEY_OK) ==> (REFUSED_CLEAN && OUT(getalgo_n) == 0)) \
  __CPROVER_ensures((KEY_OK && OBJB(K0, PRIVATE) == 2 && !VP_SES_USER) ==> (REFUSED_CLEAN && OUT(getalgo_n) == 0)) \
  __CPROVER_ensures((KEY_OK && (OBJB(K0, FLAG) != 2 || !SES(MECH_PERMITTED) || !FITS)) ==> (REFUSED_CLEAN && OUT(getalgo_n) == 0)) \
  __CPROVER_ensures((OUT(getalgo_n) > 0) ==> (OUT(getalgo_n) == 1 && OUT(getalgo_kind) == ALGO_OF && FITS && SFX(MECHPERM_N) >= 1 && SFX(MECHPERM_OBJ) == K0 && SFX(MECHPERM_MECH) == M)) \
  /* the key: at least as long as the digest, 7 effective bits per byte for DES keys, decrypted first when private */ \
  __CPROVER_ensures((OUT(init_n) > 0) ==> (OUT(init_n) == 1 && OUT(init_verify) == VERIFY && OUT(init_keybits) == OUT(init_keylen) * (ALGO_OF == 8 ? 7 : 8) && OUT(init_keybits) >= MINBYTES * 8)) \
  __CPROVER_ensures((OUT(init_n) > 0 && KPRIV) ==> (CNT(DECRYPT) == 1 && OUT(init_keylen) == DL && (DL == 0 || OUT(init_key0) == vp_in_decbytes[0]))) \
  __CPROVER_ensures((OUT(init_n) > 0 && !KPRIV) ==> CNT(DECRYPT) == 0) \
  /* C12 */ \
  __CPROVER_ensures((RV == CKR_OK) ==> (OUT(init_n) == 1 && IN(init_ok) && SFX(SETOPTYPE_N) == 1 && SFX(SETOPTYPE_LAST) == OPCODE && OUT(set_mac_n) == 1 && OUT(set_key_n) == 1 && \
                                       OUT(set_multi) && OUT(set_single) && OUT(recalgo_n) == 0 && OUT(reckey_n) == 0)) \
  __CPROVER_ensures((RV != CKR_OK) ==> (SFX(SETOPTYPE_N) == 0 && SFX(SESSION_SET_N) == 0 && (IN(algoNull) || OUT(recalgo_n) == OUT(getalgo_n)) && (OUT(getalgo_n) == 0 || IN(algoNull) || OUT(reckey_n) == 1))) \
  __CPROVER_ensures(CNT(SET) == 0 && CNT(ENCRYPT) == 0) \
  __CPROVER_assigns(__CPROVER_object_whole(vp_out), VP_SOFTHSM_FRAME)

CK_RV vp_macsign(void) K_MAC_INIT(SIGN, 0x5, 0);
CK_RV vp_macverify(void) K_MAC_INIT(VERIFY, 0x6, 1);
void vp_call_MacSignInit(void) { vp_rv = vp_macsign(); }
void vp_call_MacVerifyInit(void) { vp_rv = vp_macverify(); }
#define COVERS VP_COVER(vp_rv == CKR_OK && M == CKM_AES_CMAC && KPRIV); VP_COVER(vp_rv == CKR_OK && M == CKM_DES3_CMAC && KT == CKK_DES3); VP_COVER(vp_rv == CKR_KEY_SIZE_RANGE && M == CKM_SHA256_HMAC && KT == CKK_GENERIC_SECRET); \
  VP_COVER(vp_rv == CKR_KEY_TYPE_INCONSISTENT && M == CKM_SHA_1_HMAC); VP_COVER(vp_rv == CKR_OPERATION_ACTIVE); VP_COVER(vp_rv == CKR_MECHANISM_INVALID && OUT(init_n) == 1)
void h_macsign(void) { VP_HAVOC_SOFTHSM(); __CPROVER_havoc_object(vp_in); vp_call_MacSignInit(); COVERS; }
void h_macverify(void) { VP_HAVOC_SOFTHSM(); __CPROVER_havoc_object(vp_in); vp_call_MacVerifyInit(); COVERS; }
