// environment of MacSignInit / MacVerifyInit (cbmc: included at the end of the sliced SoftHSM.cpp)
#include "CryptoFactory.h"
#include "MacAlgorithm.h"
#include "shared.h"
static long vp_cf_store[8], vp_mac_store[32];
CryptoFactory* CryptoFactory::i() { return (CryptoFactory*)(void*)&vp_cf_store[0]; }
MacAlgorithm* CryptoFactory::getMacAlgorithm(MacAlgo::Type algorithm)
{
	OUT(getalgo_n)++; OUT(getalgo_kind) = (CK_ULONG)algorithm;
	return IN(algoNull) ? (MacAlgorithm*)0 : (MacAlgorithm*)(void*)&vp_mac_store[0];
}
void CryptoFactory::recycleMacAlgorithm(MacAlgorithm*) { OUT(recalgo_n)++; }
void MacAlgorithm::recycleKey(SymmetricKey*) { OUT(reckey_n)++; }
static bool rec_init(int verify, const SymmetricKey* key)
{
	OUT(init_n)++; OUT(init_verify) = verify;
	OUT(init_keybits) = key->getBitLen(); OUT(init_keylen) = key->getKeyBits().size(); OUT(init_key0) = key->getKeyBits().size() ? key->getKeyBits().const_byte_str()[0] : 0;
	return IN(init_ok) != 0;
}
bool MacAlgorithm::signInit(const SymmetricKey* key) { return rec_init(0, key); }
bool MacAlgorithm::verifyInit(const SymmetricKey* key) { return rec_init(1, key); }
void Session::setMacOp(MacAlgorithm*) { OUT(set_mac_n)++; SFX(SESSION_SET_N)++; }
void Session::setSymmetricKey(SymmetricKey*) { OUT(set_key_n)++; SFX(SESSION_SET_N)++; }
void Session::setAllowMultiPartOp(bool v) { OUT(set_multi) = v; SFX(SESSION_SET_N)++; }
void Session::setAllowSinglePartOp(bool v) { OUT(set_single) = v; SFX(SESSION_SET_N)++; }
extern "C" CK_RV vp_macsign(void) { VP_MK_HSM(); VP_MK_MECH(); return hsm->MacSignInit(SES(HSESSION), pMech, SES(HARG0)); }
extern "C" CK_RV vp_macverify(void) { VP_MK_HSM(); VP_MK_MECH(); return hsm->MacVerifyInit(SES(HSESSION), pMech, SES(HARG0)); }
