/* forward declaration of the environment's stand-in for the static newP11Object (stubbed in place in the slice; the
 * definition follows at the end of the same translation unit) */
#include "cryptoki.h"
class P11Object;
static CK_RV vp_newP11Object(P11Object** p11object);
