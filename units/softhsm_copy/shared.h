#ifndef VP_COPY_SHARED_H
#define VP_COPY_SHARED_H
#include "softhsm_env.h"
#define VP_T3 2
enum vp_in_idx { I_newP11_rv, I_createNull, I_init_ok, I_save_rv, I_phNull, I_h0, VP_IN_N };
enum vp_out_idx { O_created, O_create_token, O_create_priv, O_create_slot, O_create_hsess, O_reg_n, O_reg_token, O_reg_priv, O_reg_slot, O_reg_hsess, O_reg_obj,
                  O_h, O_save_n, O_save_priv, O_save_op, O_save_count, O_del_n, VP_OUT_N };
VP_C_BEGIN
extern CK_ULONG vp_in[VP_IN_N];
extern CK_ULONG vp_in_t3[VP_T3 * 3];      /* template: type, ulValueLen, value (8 bytes) */
extern CK_ULONG vp_out[VP_OUT_N];
VP_C_END
#define IN(x) vp_in[(int)I_##x]
#define OUT(x) vp_out[(int)O_##x]
#define T3(i, f) vp_in_t3[(i) * 3 + (f)]
#define VP_NEW_HANDLE 777UL
#endif
