// environment of SoftHSM::C_CopyObject (same translation unit as the sliced SoftHSM.cpp under cbmc)
#include "P11Objects.h"
#include "SessionObjectStore.h"
#include "SessionObject.h"
#include "shared.h"

static long vp_p11_store[(sizeof(P11Object) + 7) / 8 + 8];
typedef P11Object vp_p11_t;
static CK_RV vp_newP11Object(P11Object** p11object)
{
	if (IN(newP11_rv) != CKR_OK) return IN(newP11_rv);
	*p11object = VP_RAW_NEW(vp_p11_t);
#ifdef VP_NATIVE
	VP_INIT_CONTAINER((*p11object)->attributes);
#endif
	return CKR_OK;
}
P11Object::~P11Object() { OUT(del_n)++; }
bool P11Object::init(OSObject*) { return IN(init_ok) != 0; }
CK_RV P11Object::saveTemplate(Token*, bool isPrivate, CK_ATTRIBUTE_PTR, CK_ULONG ulAttributeCount, int op)
{
	OUT(save_n)++; OUT(save_priv) = isPrivate; OUT(save_op) = (CK_ULONG)op; OUT(save_count) = ulAttributeCount;
	return IN(save_rv);
}

OSObject* Token::createObject()
{
	OUT(created)++; OUT(create_token) = 1;
	return IN(createNull) ? (OSObject*)0 : vp_obj(2);
}
SessionObject* SessionObjectStore::createObject(CK_SLOT_ID slotID, CK_SESSION_HANDLE hSession, bool isPrivate)
{
	OUT(created)++; OUT(create_token) = 0; OUT(create_priv) = isPrivate; OUT(create_slot) = slotID; OUT(create_hsess) = hSession;
	return IN(createNull) ? (SessionObject*)0 : (SessionObject*)(void*)vp_obj(2);
}
static CK_OBJECT_HANDLE reg(CK_SLOT_ID slotID, CK_SESSION_HANDLE hSession, bool isPrivate, bool isToken, CK_VOID_PTR object)
{
	OUT(reg_n)++; OUT(reg_token) = isToken; OUT(reg_priv) = isPrivate; OUT(reg_slot) = slotID; OUT(reg_hsess) = hSession;
	OUT(reg_obj) = (CK_ULONG)vp_obj_index((OSObject*)object);
	return VP_NEW_HANDLE;
}
CK_OBJECT_HANDLE HandleManager::addTokenObject(CK_SLOT_ID slotID, bool isPrivate, CK_VOID_PTR object) { return reg(slotID, 0, isPrivate, true, object); }
CK_OBJECT_HANDLE HandleManager::addSessionObject(CK_SLOT_ID slotID, CK_SESSION_HANDLE hSession, bool isPrivate, CK_VOID_PTR object) { return reg(slotID, hSession, isPrivate, false, object); }

static long vp_sos_store[4];
extern "C" CK_RV vp_copy(void)
{
	VP_MK_HSM();
	hsm->sessionObjectStore = (SessionObjectStore*)(void*)&vp_sos_store[0];
	CK_ATTRIBUTE tmpl[VP_T3]; CK_ULONG tvals[VP_T3];
	for (int ti = 0; ti < VP_T3; ti++) { tvals[ti] = T3(ti, 2); tmpl[ti].type = T3(ti, 0); tmpl[ti].ulValueLen = T3(ti, 1); tmpl[ti].pValue = (CK_VOID_PTR)&tvals[ti]; }
	CK_OBJECT_HANDLE h = IN(h0);
	CK_RV rv = hsm->C_CopyObject(SES(HSESSION), SES(HARG0), SES(NULL_OUT) ? (CK_ATTRIBUTE_PTR)0 : &tmpl[0], SES(TCOUNT), IN(phNull) ? (CK_OBJECT_HANDLE_PTR)0 : &h);
	OUT(h) = h;
	return rv;
}
