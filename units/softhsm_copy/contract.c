/* SoftHSM::C_CopyObject, whole function.
 * C06: a copy that upgrades a public object to private stores every non-empty byte-string value as the output of
 *      Token::encrypt - never the plaintext.  C02: privacy is never downgraded by copying; a non-copyable object is not copied.
 * C01: the source must be readable and the copy writable in this session state - decided before anything is created.
 * C09: a failing call destroys what it created and registers no handle.
 * C11: the handle is registered for the new object with the NEW object's token / private flags, this session and slot. */
#include "shared.h"
CK_ULONG vp_in[VP_IN_N];
CK_ULONG vp_in_t3[VP_T3 * 3];
CK_ULONG vp_out[VP_OUT_N];
CK_RV vp_rv;
VP_SOFTHSM_CALLEE_CONTRACTS

#define LOGN 8
#define NT (SES(TCOUNT) < VP_T3 ? SES(TCOUNT) : VP_T3)
static int t_has(CK_ATTRIBUTE_TYPE t, CK_ULONG len) { for (CK_ULONG i = 0; i < VP_T3; i++) if (i < NT && T3(i, 0) == t && T3(i, 1) == len) return 1; return 0; }
static CK_ULONG t_val(CK_ATTRIBUTE_TYPE t, CK_ULONG len, CK_ULONG dflt) { CK_ULONG v = dflt; for (CK_ULONG i = 0; i < VP_T3; i++) if (i < NT && T3(i, 0) == t && T3(i, 1) == len) v = T3(i, 2); return v; }
#define K0 VP_OBJ_OF(SES(HARG0))
/* the source object's flags, and the copy's: the template's (last well-sized entry) or else the source's */
static int was_token(void) { return K0 < VP_NOBJ ? OBJBV(K0, TOKEN, 0) : 0; }
static int was_private(void) { return K0 < VP_NOBJ ? OBJBV(K0, PRIVATE, 1) : 1; }
static int new_token(void) { return t_has(CKA_TOKEN, 1) ? (t_val(CKA_TOKEN, 1, 0) & 0xff) != 0 : was_token(); }
static int new_private(void) { return t_has(CKA_PRIVATE, 1) ? (t_val(CKA_PRIVATE, 1, 0) & 0xff) != 0 : was_private(); }
/* the source's further attribute is a non-empty byte string */
static int src_has_bytes(void)
{
  if (!(K0 < VP_NOBJ)) return 0;
  return OBJX(K0, OTHER_EXISTS) && vp_bidx(OBJX(K0, OTHER_TYPE)) < 0 && vp_uidx(OBJX(K0, OTHER_TYPE)) < 0 && OBJX(K0, OTHER_TYPE) != CKA_ALLOWED_MECHANISMS &&
         !(OBJX(K0, OTHER_KIND) == 1 || OBJX(K0, OTHER_KIND) == 2 || OBJX(K0, OTHER_KIND) == 4) && OBJX(K0, OTHER_LEN) != 0;
}
/* a byte string stored into the new object that is not the output of Token::encrypt (and not empty) */
static int plain_bytes_stored(void)
{
  for (CK_ULONG i = 0; i < LOGN; i++) if (i < CNT(LOG) && LOGF(i, KIND) == E_SET_BYTES && LOGF(i, OBJ) == 2 && LOGF(i, VAL) != 0 && LOGF(i, PROV) != 1) return 1;
  return 0;
}
static int bytes_stored(CK_ATTRIBUTE_TYPE t)
{
  for (CK_ULONG i = 0; i < LOGN; i++) if (i < CNT(LOG) && LOGF(i, KIND) == E_SET_BYTES && LOGF(i, OBJ) == 2 && LOGF(i, TYPE) == t) return 1;
  return 0;
}
static int ulong_stored(CK_ATTRIBUTE_TYPE t, CK_ULONG v)
{
  for (CK_ULONG i = 0; i < LOGN; i++) if (i < CNT(LOG) && LOGF(i, KIND) == E_SET_ULONG && LOGF(i, OBJ) == 2 && LOGF(i, TYPE) == t && LOGF(i, VAL) == v) return 1;
  return 0;
}

#define RV __CPROVER_return_value
/* the log scans above look at the first LOGN records; the first clause below proves there are never more */
#define GOOD_ARGS (SES(INIT) && SES(VALID) && !SES(NULL_OUT) && !IN(phNull) && !SES(TOKEN_NULL) && K0 < VP_NOBJ && OBJX(K0, VALID))
#define NOTHING_CREATED (OUT(created) == 0 && OUT(reg_n) == 0 && CNT(SET) == 0 && CNT(ENCRYPT) == 0)

CK_RV vp_copy(void)
__CPROVER_requires(VP_FRESH_GHOST && !(TOK(SO) && TOK(USER)) && (!TOK(SO) || SES(RW)) && OUT(created) == 0 && OUT(reg_n) == 0 && OUT(save_n) == 0 && OUT(del_n) == 0)
__CPROVER_requires(SES(TCOUNT) <= VP_T3 && SES(HOBJ0) != SES(HOBJ1) && OBJX(0, OTHER_KIND) == 3 && OBJX(1, OTHER_KIND) == 3)
__CPROVER_ensures(CNT(LOG) <= LOGN)
__CPROVER_ensures(!GOOD_ARGS ==> (RV != CKR_OK && NOTHING_CREATED))
/* C01: read access to the source, write access for the copy */
__CPROVER_ensures((GOOD_ARGS && was_private() && !VP_SES_USER) ==> (RV != CKR_OK && NOTHING_CREATED))
__CPROVER_ensures((GOOD_ARGS && new_private() && !VP_SES_USER) ==> (RV != CKR_OK && NOTHING_CREATED))
__CPROVER_ensures((GOOD_ARGS && new_token() && !SES(RW)) ==> (RV != CKR_OK && NOTHING_CREATED))
/* C02: not copyable / privacy downgrade */
__CPROVER_ensures((GOOD_ARGS && !OBJBV(K0, COPYABLE, 1)) ==> (RV != CKR_OK && NOTHING_CREATED))
__CPROVER_ensures((GOOD_ARGS && was_private() && !new_private()) ==> (RV != CKR_OK && NOTHING_CREATED))
/* C09 */
__CPROVER_ensures((RV != CKR_OK) ==> (OUT(reg_n) == 0 && (OUT(h) == IN(h0) || OUT(h) == CK_INVALID_HANDLE)))
__CPROVER_ensures((RV != CKR_OK && OUT(created) > 0 && !IN(createNull)) ==> (CNT(DESTROY) == 1))
__CPROVER_ensures(OUT(created) <= 1)
/* success: one object, committed, not destroyed; the source is never written */
__CPROVER_ensures((RV == CKR_OK) ==> (OUT(created) == 1 && CNT(DESTROY) == 0 && CNT(TX_START) == 1 && CNT(TX_COMMIT) == 1 && CNT(TX_ABORT) == 0))
__CPROVER_ensures((RV == CKR_OK) ==> (OUT(save_n) == 1 && OUT(save_op) == 0x1 && OUT(save_priv) == (CK_ULONG)new_private() && OUT(save_count) == SES(TCOUNT)))
/* C11: registered with the copy's own flags */
__CPROVER_ensures((RV == CKR_OK) ==> (OUT(reg_n) == 1 && OUT(reg_obj) == 2 && OUT(h) == VP_NEW_HANDLE && OUT(reg_slot) == SES(SLOTID)))
__CPROVER_ensures((RV == CKR_OK) ==> (OUT(reg_token) == (CK_ULONG)new_token() && OUT(reg_priv) == (CK_ULONG)new_private() && OUT(create_token) == (CK_ULONG)new_token()))
__CPROVER_ensures((RV == CKR_OK && !new_token()) ==> (OUT(reg_hsess) == SES(HSESSION) && OUT(create_hsess) == SES(HSESSION) && OUT(create_priv) == (CK_ULONG)new_private() && OUT(create_slot) == SES(SLOTID)))
/* the attributes are carried over */
__CPROVER_ensures((RV == CKR_OK) ==> ulong_stored(CKA_CLASS, OBJU(K0, CLASS)))
__CPROVER_ensures((RV == CKR_OK && src_has_bytes()) ==> bytes_stored(OBJX(K0, OTHER_TYPE)))
/* C06: privacy upgrade */
__CPROVER_ensures((RV == CKR_OK && !was_private() && new_private()) ==> !plain_bytes_stored())
__CPROVER_ensures((RV == CKR_OK && !was_private() && new_private() && src_has_bytes()) ==> (CNT(ENCRYPT) == 1 && TOK(ENC_OK)))
/* no needless re-encryption: same privacy -> stored as is, nothing encrypted */
__CPROVER_ensures((was_private() || !new_private()) ==> (CNT(ENCRYPT) == 0))
__CPROVER_assigns(__CPROVER_object_whole(vp_out), VP_SOFTHSM_FRAME);

void vp_call_C_CopyObject(void) { vp_rv = vp_copy(); }
void h_copy(void)
{
  VP_HAVOC_SOFTHSM(); __CPROVER_havoc_object(vp_in); __CPROVER_havoc_object(vp_in_t3);
  vp_call_C_CopyObject();
  VP_COVER(vp_rv == CKR_OK && !was_private() && new_private() && src_has_bytes() && new_token());
  VP_COVER(vp_rv == CKR_OK && !new_token() && !new_private() && was_token());
  VP_COVER(vp_rv == CKR_OK && was_private() && src_has_bytes());
  VP_COVER(vp_rv == CKR_USER_NOT_LOGGED_IN);
  VP_COVER(vp_rv == CKR_TEMPLATE_INCONSISTENT);
  VP_COVER(vp_rv != CKR_OK && OUT(created) == 1 && !IN(createNull) && OUT(save_n) == 1);
  VP_COVER(vp_rv == CKR_FUNCTION_FAILED && CNT(ENCRYPT) == 1 && !TOK(ENC_OK));
}
