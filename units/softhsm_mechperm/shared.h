#ifndef VP_MP_SHARED_H
#define VP_MP_SHARED_H
#include "osobject.h"
enum vp_in_idx { I_sm_n, I_sm0, I_sm1, I_mech, I_key_null, VP_IN_N };
enum vp_out_idx { O_ret, VP_OUT_N };
VP_C_BEGIN
extern CK_ULONG vp_in[VP_IN_N];
extern CK_ULONG vp_out[VP_OUT_N];
VP_C_END
#define IN(x) vp_in[(int)I_##x]
#define OUT(x) vp_out[(int)O_##x]
#endif
