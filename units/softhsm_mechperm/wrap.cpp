#include "config.h"
#include "SoftHSM.h"
#include "shared.h"
extern "C" void vp_mp(void)
{
	long hsm_store[(sizeof(SoftHSM) + 7) / 8 + 1]; SoftHSM* hsm = (SoftHSM*)(void*)&hsm_store[0];
	VP_INIT_CONTAINER(hsm->supportedMechanisms);
	if (IN(sm_n) >= 1) hsm->supportedMechanisms.push_back(IN(sm0));
	if (IN(sm_n) >= 2) hsm->supportedMechanisms.push_back(IN(sm1));
	CK_MECHANISM mech; mech.mechanism = IN(mech); mech.pParameter = NULL_PTR; mech.ulParameterLen = 0;
	OUT(ret) = hsm->isMechanismPermitted(IN(key_null) ? (OSObject*)0 : vp_obj(0), &mech) ? 1 : 0;
}
