/* C07: a mechanism is permitted for a key iff it is in the token's configured mechanism list AND (the key's
 * CKA_ALLOWED_MECHANISMS is empty or contains it).  Both conditions, for every key.  A key-less operation (digesting,
 * key generation: key == NULL) is permitted iff the mechanism is in the configured list. */
#include "shared.h"
CK_ULONG vp_in[VP_IN_N];
CK_ULONG vp_out[VP_OUT_N];
CK_RV vp_rv;
#define M IN(mech)
#define SUPPORTED ((IN(sm_n) >= 1 && IN(sm0) == M) || (IN(sm_n) >= 2 && IN(sm1) == M))
#define AN OBJX(0, ALLOWED_N)
#define ALLOWED_EMPTY (AN == 0)
#define IN_ALLOWED ((AN >= 1 && OBJX(0, ALLOWED_0) == M) || (AN >= 2 && OBJX(0, ALLOWED_1) == M))
void vp_mp(void)
__CPROVER_requires(IN(sm_n) <= 2 && AN <= 2)
__CPROVER_ensures(OUT(ret) == ((SUPPORTED && (IN(key_null) || ALLOWED_EMPTY || IN_ALLOWED)) ? 1 : 0))
__CPROVER_ensures(IN(key_null) ==> CNT(VALUE_READS) == 0)
__CPROVER_ensures(CNT(SET) == 0 && CNT(DELETE) == 0)
__CPROVER_assigns(__CPROVER_object_whole(vp_out), VP_ENV_FRAME);
void vp_call_isMechanismPermitted(void) { vp_mp(); }
void h_mp(void) { __CPROVER_havoc_object(vp_in); VP_HAVOC_OBJECTS(); vp_call_isMechanismPermitted();
  VP_COVER(OUT(ret) && AN == 2); VP_COVER(OUT(ret) && AN == 0); VP_COVER(!OUT(ret) && SUPPORTED); VP_COVER(!OUT(ret) && IN_ALLOWED); VP_COVER(OUT(ret) && IN(key_null) && AN == 2 && !IN_ALLOWED); VP_COVER(!OUT(ret) && IN(key_null)); }
