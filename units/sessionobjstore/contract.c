/* C05 ("session objects never outlive their session"), C11 (exactly the affected session objects die), C01 (private
 * session objects go at logout), C14/C19 (an object is only ever listed under its own slot): SessionObjectStore and the
 * lifecycle half of SessionObject over every store of <= 3 objects built through the real createObject. */
#include "shared.h"
CK_ULONG vp_in[VP_IN_N];
CK_ULONG vp_in_tab[VP_N * VP_NEF];
CK_ULONG vp_out[VP_OUT_N];
CK_RV vp_rv;
#define N IN(n)
#define W IN(w)
#define A IN(arg)
/* op 1 sessionClosed(hSession = arg) 2 allSessionsClosed(slot = arg) 3 tokenLoggedOut(slot = arg) 4 deleteObject(object number arg) */
#define REMOVED(i) (IN(op) == 1 ? (ENT(i, HSESS) == A) : IN(op) == 2 ? (ENT(i, SLOT) == A) : IN(op) == 3 ? (ENT(i, SLOT) == A && ENT(i, PRIV)) : ((i) == A))
#if VP_N >= 3
#define CNT2 (N > 2 && !REMOVED(2) ? 1 : 0)
#else
#define CNT2 0
#endif
#define CNT_LEFT ((N > 0 && !REMOVED(0) ? 1 : 0) + (N > 1 && !REMOVED(1) ? 1 : 0) + CNT2)
void vp_purge(void)
__CPROVER_requires(N >= 1 && N <= VP_N && W < N && IN(op) >= 1 && IN(op) <= 4)
__CPROVER_ensures(OUT(created_ok) == N && OUT(valid_before) == 1 && OUT(listed_before) == 1)
/* exactly the affected objects are invalidated and disappear from the store; every other object stays valid and listed */
__CPROVER_ensures(OUT(valid_after) == (REMOVED(W) ? 0 : 1))
__CPROVER_ensures(OUT(listed_after) == (REMOVED(W) ? 0 : 1))
__CPROVER_ensures(OUT(count_after) == CNT_LEFT)
/* an object is never listed under another slot */
__CPROVER_ensures((IN(q) != ENT(W, SLOT)) ==> (OUT(listed_other) == 0))
__CPROVER_ensures((IN(op) == 4) ==> (OUT(del_rv) == (A < N ? 1 : 0)))
__CPROVER_assigns(__CPROVER_object_whole(vp_out));
void vp_call_purge(void) { vp_purge(); }
void h_purge(void) { __CPROVER_havoc_object(vp_in); __CPROVER_havoc_object(vp_in_tab); vp_call_purge();
  VP_COVER(N == VP_N && IN(op) == 1 && OUT(valid_after) == 0 && OUT(count_after) == VP_N - 1); VP_COVER(N == VP_N && IN(op) == 2 && OUT(valid_after) == 1 && OUT(count_after) == 1);
  VP_COVER(IN(op) == 3 && OUT(valid_after) == 0); VP_COVER(IN(op) == 3 && OUT(valid_after) == 1 && ENT(W, SLOT) == A); VP_COVER(IN(op) == 4 && OUT(valid_after) == 0 && N == 2); }
