#ifndef VP_SOS_SHARED_H
#define VP_SOS_SHARED_H
#include "vp.h"
#ifndef VP_N
#define VP_N 2
#endif
enum vp_ef { EF_SLOT, EF_HSESS, EF_PRIV, VP_NEF };
enum vp_in_idx { I_n, I_op, I_arg, I_w, I_q, VP_IN_N };
enum vp_out_idx { O_created_ok, O_valid_before, O_listed_before, O_valid_after, O_listed_after, O_listed_other, O_count_after, O_del_rv, VP_OUT_N };
VP_C_BEGIN
extern CK_ULONG vp_in[VP_IN_N];
extern CK_ULONG vp_in_tab[VP_N * VP_NEF];
extern CK_ULONG vp_out[VP_OUT_N];
VP_C_END
#define IN(x) vp_in[(int)I_##x]
#define OUT(x) vp_out[(int)O_##x]
#define ENT(i, f) vp_in_tab[(i) * (int)VP_NEF + (int)EF_##f]
#endif
