// (cbmc: included at the end of the sliced SessionObjectStore.cpp; native twin: separate translation unit)
#include "config.h"
#include "SessionObjectStore.h"
#include "SessionObject.h"
#include <set>
#include "shared.h"
extern "C" void vp_purge(void)
{
	SessionObjectStore store;
	SessionObject* o[VP_N]; CK_ULONG ok = 0;
	for (CK_ULONG i = 0; i < VP_N; i++)
	{
		o[i] = NULL;
		if (i >= IN(n)) break;
		o[i] = store.createObject(ENT(i, SLOT), ENT(i, HSESS), ENT(i, PRIV) != 0);
		if (o[i] != NULL) ok++;
	}
	OUT(created_ok) = ok;
	CK_ULONG w = IN(w);
	SessionObject* ow = o[w];
	{ std::set<OSObject*> l; store.getObjects(ENT(w, SLOT), l); OUT(valid_before) = ow->isValid(); OUT(listed_before) = l.find(ow) != l.end(); }
	switch (IN(op))
	{
		case 1: store.sessionClosed(IN(arg)); break;
		case 2: store.allSessionsClosed(IN(arg)); break;
		case 3: store.tokenLoggedOut(IN(arg)); break;
		case 4: { static SessionObject* none = 0; SessionObject* victim = IN(arg) < IN(n) ? o[IN(arg)] : (SessionObject*)(void*)&none; OUT(del_rv) = store.deleteObject(victim) ? 1 : 0; break; }
	}
	{ std::set<OSObject*> l; store.getObjects(ENT(w, SLOT), l); OUT(valid_after) = ow->isValid(); OUT(listed_after) = l.find(ow) != l.end(); }
	{ std::set<OSObject*> l2; store.getObjects(IN(q), l2); OUT(listed_other) = l2.find(ow) != l2.end(); }
	OUT(count_after) = (CK_ULONG)store.getObjectCount();
}
