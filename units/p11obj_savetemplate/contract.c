/* C09 (no prefix of a rejected template survives: every failure aborts the transaction, success commits it once)
 * and C08 (CKA_MODIFIABLE / CKA_COPYABLE object-level gates): P11Object::saveTemplate. */
#include "shared.h"
#include "k_p11.h"
CK_ULONG vp_in[VP_IN_N];
CK_ULONG vp_out[VP_OUT_N];
CK_RV vp_rv;

#define RV __CPROVER_return_value
#define NA IN(na)
#define TC IN(tc)
#define HAS_ATTR(t) ((NA >= 1 && IN(atype0) == (t)) || (NA >= 2 && IN(atype1) == (t)))
#define IN_TMPL(t) ((TC >= 1 && IN(ttype0) == (t)) || (TC >= 2 && IN(ttype1) == (t)))
#define TX_OK (OBJX(0, TX_FAILS) == 0)
#define ROLLED_BACK (CNT(TX_ABORT) == 1 && CNT(TX_COMMIT) == 0)
#define MAND(c) ((IN(op) == VP_OP_CREATE && ((c) & VP_ck1)) || (IN(op) == VP_OP_GENERATE && ((c) & VP_ck3)) || (IN(op) == VP_OP_UNWRAP && ((c) & VP_ck5)))
#define MISSING_MANDATORY ((NA >= 1 && MAND(IN(achecks0)) && !IN_TMPL(IN(atype0))) || (NA >= 2 && MAND(IN(achecks1)) && !IN_TMPL(IN(atype1))))

CK_RV vp_save(void)
__CPROVER_requires(NA <= 2 && TC <= 2 && IN(op) <= 6 && (NA < 2 || IN(atype0) < IN(atype1)))   /* distinct types; w.l.o.g. ascending (the array map stub iterates in insertion order) */
__CPROVER_requires(CNT(TX_START) == 0 && CNT(TX_ABORT) == 0 && CNT(TX_COMMIT) == 0 && OUT(n_update) == 0 && CNT(SET) == 0)
/* C09: whenever the call fails after the transaction was opened, it is aborted exactly once and never committed */
__CPROVER_ensures((RV != CKR_OK && TX_OK) ==> ROLLED_BACK)
__CPROVER_ensures((RV == CKR_OK) ==> (CNT(TX_START) == 1 && CNT(TX_COMMIT) == 1 && CNT(TX_ABORT) == 0))
__CPROVER_ensures((!TX_OK) ==> (RV != CKR_OK && OUT(n_update) == 0))
/* C08: object-level gates */
__CPROVER_ensures((TX_OK && IN(op) == VP_OP_SET && OBJB(0, MODIFIABLE) == 1) ==> (RV == CKR_ACTION_PROHIBITED && OUT(n_update) == 0))
__CPROVER_ensures((TX_OK && IN(op) == VP_OP_COPY && OBJB(0, COPYABLE) == 1) ==> (RV == CKR_ACTION_PROHIBITED && OUT(n_update) == 0))
/* an attribute the class does not define is refused (and rolled back, clause 1) */
__CPROVER_ensures((TX_OK && TC >= 1 && !HAS_ATTR(IN(ttype0))) ==> (RV != CKR_OK && OUT(n_update) == 0))
__CPROVER_ensures((TX_OK && TC >= 2 && !HAS_ATTR(IN(ttype1))) ==> (RV != CKR_OK && OUT(n_update) <= 1))
/* success: every template entry went through P11Attribute::update once, in order, with the caller's op and privacy */
__CPROVER_ensures((RV == CKR_OK) ==> (OUT(n_update) == TC && (TC < 1 || OUT(u_type0) == IN(ttype0)) && (TC < 2 || OUT(u_type1) == IN(ttype1)) && (TC == 0 || (OUT(u_op) == IN(op) && OUT(u_priv) == (IN(isPrivate) != 0)))))
/* the first refused entry stops the call with its code */
__CPROVER_ensures((OUT(n_update) >= 1 && IN(urv0) != CKR_OK) ==> (RV == IN(urv0) && OUT(n_update) == 1))
__CPROVER_ensures((OUT(n_update) == 2 && IN(urv1) != CKR_OK) ==> (RV == IN(urv1)))
/* mandatory attributes (ck1 at create, ck3 at generate, ck5 at unwrap) */
__CPROVER_ensures(MISSING_MANDATORY ==> (RV != CKR_OK))
__CPROVER_assigns(__CPROVER_object_whole(vp_out), VP_ENV_FRAME);

void vp_call_saveTemplate(void) { vp_rv = vp_save(); }
void h_save(void) { __CPROVER_havoc_object(vp_in); VP_HAVOC_OBJECTS(); vp_call_saveTemplate();
  VP_COVER(vp_rv == CKR_OK && TC == 2 && NA == 2); VP_COVER(vp_rv == CKR_ATTRIBUTE_TYPE_INVALID && OUT(n_update) == 1); VP_COVER(vp_rv == CKR_ACTION_PROHIBITED);
  VP_COVER(vp_rv == CKR_TEMPLATE_INCOMPLETE); VP_COVER(vp_rv == CKR_ATTRIBUTE_READ_ONLY && OUT(n_update) == 2); }
