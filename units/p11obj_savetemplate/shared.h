#ifndef VP_ST_SHARED_H
#define VP_ST_SHARED_H
#include "osobject.h"
enum vp_in_idx { I_na, I_atype0, I_atype1, I_achecks0, I_achecks1, I_tc, I_ttype0, I_ttype1, I_op, I_isPrivate, I_urv0, I_urv1, VP_IN_N };
enum vp_out_idx { O_n_update, O_u_type0, O_u_type1, O_u_op, O_u_priv, VP_OUT_N };
VP_C_BEGIN
extern CK_ULONG vp_in[VP_IN_N];
extern CK_ULONG vp_out[VP_OUT_N];
VP_C_END
#define IN(x) vp_in[(int)I_##x]
#define OUT(x) vp_out[(int)O_##x]
#endif
