#include "config.h"
#include "P11Objects.h"
#include "shared.h"

// P11Attribute: two environment attributes (raw storage); update() and getChecks() answer ghost values
static long vp_attr_store[2][(sizeof(P11Attribute) + 7) / 8 + 1];
static P11Attribute* vp_attr(int k) { return (P11Attribute*)(void*)&vp_attr_store[k][0]; }
CK_RV P11Attribute::update(Token*, bool isPrivate, CK_VOID_PTR, CK_ULONG, int op)
{
	CK_ULONG n = OUT(n_update);
	CK_ULONG mytype = this == vp_attr(1) ? IN(atype1) : IN(atype0);
	if (n == 0) OUT(u_type0) = mytype; else OUT(u_type1) = mytype;
	OUT(u_op) = (CK_ULONG)op; OUT(u_priv) = isPrivate;
	OUT(n_update) = n + 1;
	return n == 0 ? IN(urv0) : IN(urv1);
}
CK_ATTRIBUTE_TYPE P11Attribute::getChecks() { return this == vp_attr(1) ? IN(achecks1) : IN(achecks0); }

extern "C" CK_RV vp_save(void)
{
	long tok_store[(sizeof(Token) + 7) / 8]; Token* tok = (Token*)(void*)&tok_store[0];
	long obj_store[(sizeof(P11Object) + 7) / 8 + 64]; P11Object* po = (P11Object*)(void*)&obj_store[0];
	po->osobject = vp_obj(0);
	VP_INIT_CONTAINER(po->attributes);
	if (IN(na) >= 1) po->attributes.insert(std::pair<CK_ATTRIBUTE_TYPE, P11Attribute*>(IN(atype0), vp_attr(0)));
	if (IN(na) >= 2) po->attributes.insert(std::pair<CK_ATTRIBUTE_TYPE, P11Attribute*>(IN(atype1), vp_attr(1)));
	CK_ATTRIBUTE tmpl[2]; CK_ULONG v[2];
	tmpl[0].type = IN(ttype0); tmpl[0].pValue = &v[0]; tmpl[0].ulValueLen = 8;
	tmpl[1].type = IN(ttype1); tmpl[1].pValue = &v[1]; tmpl[1].ulValueLen = 8;
	return po->saveTemplate(tok, IN(isPrivate) != 0, &tmpl[0], IN(tc), (int)IN(op));
}
