/* C01: the access matrix.  Oracle = the property statement: a private object is reachable only
 * while the normal user is logged in (states RO_USER / RW_USER); token objects are writable only
 * through read-write sessions.  Every 64-bit value of the state argument is covered. */
#include "vp.h"
#include "k_access.h"

struct vp_in_t { CK_STATE state; CK_BBOOL isToken; CK_BBOOL isPrivate; };
struct vp_in_t vp_in;
CK_RV vp_rv;

CK_RV vp_haveRead(CK_STATE sessionState, CK_BBOOL isTokenObject, CK_BBOOL isPrivateObject)
K_HAVEREAD(sessionState, isTokenObject, isPrivateObject);

CK_RV vp_haveWrite(CK_STATE sessionState, CK_BBOOL isTokenObject, CK_BBOOL isPrivateObject)
K_HAVEWRITE(sessionState, isTokenObject, isPrivateObject);

void vp_call_haveRead(void)  { vp_rv = vp_haveRead(vp_in.state, vp_in.isToken, vp_in.isPrivate); }
void vp_call_haveWrite(void) { vp_rv = vp_haveWrite(vp_in.state, vp_in.isToken, vp_in.isPrivate); }

void h_haveRead(void)  { struct vp_in_t in; vp_in = in; vp_call_haveRead();  VP_COVER(vp_rv == CKR_OK); VP_COVER(vp_rv != CKR_OK); }
void h_haveWrite(void) { struct vp_in_t in; vp_in = in; vp_call_haveWrite(); VP_COVER(vp_rv == CKR_OK); VP_COVER(vp_rv != CKR_OK); }
