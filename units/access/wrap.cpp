#include "access.h"
#include "vp.h"
extern "C" CK_RV vp_haveRead(CK_STATE s, CK_BBOOL t, CK_BBOOL p) { return haveRead(s, t, p); }
extern "C" CK_RV vp_haveWrite(CK_STATE s, CK_BBOOL t, CK_BBOOL p) { return haveWrite(s, t, p); }
