/* C12 (and C17): the output-length protocol of the six symmetric helpers SymEncrypt/Update/Final and
 * SymDecrypt/Update/Final of SoftHSM.cpp, reached through their C_* callers with the matching operation active.
 * Oracle: property C12 - a length query or CKR_BUFFER_TOO_SMALL leaves the operation untouched and reports a
 * length no larger than input + buffered + one block + tag; an operation that finished or failed is gone; no byte
 * beyond the announced / reported length is written. */
#include "shared.h"

CK_ULONG vp_in[VP_IN_N];
unsigned char vp_in_buf[VP_WIN];
CK_ULONG vp_out[VP_OUT_N];
CK_RV vp_rv;
VP_SOFTHSM_CALLEE_CONTRACTS

#define RV __CPROVER_return_value
#define BOUND(in) ((in) + CIP(BUFSIZE) + CIP_BS + CIP(TAGBYTES))
#define W_UNCHANGED (OUT(buf_w) == vp_in_buf[IN(w)])
#define UNTOUCHED (SFX(RESETOP_N) == 0 && CFX(UPD_N) == 0 && CFX(FIN_N) == 0)
#define K_SYM(OP, IN_LEN, FINISHES) \
  __CPROVER_requires(VP_FRESH_GHOST && CFX(UPD_N) == 0 && CFX(FIN_N) == 0 && IN(w) < VP_WIN) \
  __CPROVER_requires(SES(INIT) && SES(VALID) && !SES(NULL_OUT) && SES(OPTYPE) == (OP) && !CIP(NULL)) \
  __CPROVER_requires((IN_LEN) < 0x80000000UL && CIP(BUFSIZE) < 0x80000000UL && CIP(TAGBYTES) <= 16) \
  /* invariant of the cipher object: a block cipher never holds more than one block back */ \
  __CPROVER_requires(!CIP(ISBLOCK) || CIP(BUFSIZE) <= CIP_BS) \
  /* 1. length query */ \
  __CPROVER_ensures((RV == CKR_OK && IN(nullOut)) ==> (UNTOUCHED && OUT(len) <= BOUND(IN_LEN))) \
  /* 2. buffer too small: operation untouched, honest length, nothing written */ \
  __CPROVER_ensures((RV == CKR_BUFFER_TOO_SMALL) ==> (UNTOUCHED && OUT(len) <= BOUND(IN_LEN) && OUT(len) > IN(announced) && !IN(nullOut) && W_UNCHANGED)) \
  /* 3. an operation that failed is gone */ \
  __CPROVER_ensures((RV != CKR_OK && RV != CKR_BUFFER_TOO_SMALL) ==> (SFX(RESETOP_N) >= 1 && W_UNCHANGED)) \
  /* 4. success with a buffer: reported <= announced, nothing written at or beyond the reported length */ \
  __CPROVER_ensures((RV == CKR_OK && !IN(nullOut)) ==> (OUT(len) <= IN(announced) && (IN(w) < OUT(len) || W_UNCHANGED))) \
  /* 5. a finished operation is gone; a multi-part update keeps it */ \
  __CPROVER_ensures((RV == CKR_OK && !IN(nullOut)) ==> (SFX(RESETOP_N) == ((FINISHES) ? 1 : 0))) \
  __CPROVER_ensures(IN(nullOut) ==> W_UNCHANGED) \
  __CPROVER_assigns(__CPROVER_object_whole(vp_out), VP_SOFTHSM_FRAME, VP_CIPHER_FRAME)

CK_RV vp_SymEncrypt(void)       K_SYM(2, IN(inLen), 1);
CK_RV vp_SymEncryptUpdate(void) K_SYM(2, IN(inLen), 0);
CK_RV vp_SymEncryptFinal(void)  K_SYM(2, 0UL, 1);
CK_RV vp_SymDecrypt(void)       K_SYM(3, IN(inLen), 1);
CK_RV vp_SymDecryptUpdate(void) K_SYM(3, IN(inLen), 0);
CK_RV vp_SymDecryptFinal(void)  K_SYM(3, 0UL, 1);

#define H(f) void vp_call_##f(void) { vp_rv = vp_##f(); } \
  void h_##f(void) { VP_HAVOC_SOFTHSM(); VP_HAVOC_CIPHER(); __CPROVER_havoc_object(vp_in); __CPROVER_havoc_object(vp_in_buf); vp_call_##f(); \
    VP_COVER(vp_rv == CKR_OK && IN(nullOut)); VP_COVER(vp_rv == CKR_BUFFER_TOO_SMALL); VP_COVER(vp_rv == CKR_OK && !IN(nullOut) && OUT(len) == 8); VP_COVER(vp_rv == CKR_GENERAL_ERROR); }
H(SymEncrypt) H(SymEncryptUpdate) H(SymEncryptFinal) H(SymDecrypt) H(SymDecryptUpdate) H(SymDecryptFinal)
