#include "config.h"
#include "SoftHSM.h"
#include "shared.h"

// caller's buffers: `data` holds the input (the byte-string stub cuts every path that would move more than
// VP_BYTES_MAX bytes, so that many are provided), `out` is a window of
// VP_WIN bytes of which the first `announced` belong to the callee (witness index over the whole window)
#define SETUP VP_MK_HSM(); unsigned char data[VP_BYTES_MAX]; unsigned char out[VP_WIN]; memcpy(out, vp_in_buf, VP_WIN); \
	CK_ULONG len = IN(announced); CK_BYTE_PTR pOut = IN(nullOut) ? (CK_BYTE_PTR)0 : &out[0]
#define FINISH OUT(len) = len; OUT(buf_w) = out[IN(w)]; return rv

extern "C" CK_RV vp_SymEncrypt(void) { SETUP; CK_RV rv = hsm->C_Encrypt(SES(HSESSION), &data[0], IN(inLen), pOut, &len); FINISH; }
extern "C" CK_RV vp_SymEncryptUpdate(void) { SETUP; CK_RV rv = hsm->C_EncryptUpdate(SES(HSESSION), &data[0], IN(inLen), pOut, &len); FINISH; }
extern "C" CK_RV vp_SymEncryptFinal(void) { SETUP; CK_RV rv = hsm->C_EncryptFinal(SES(HSESSION), pOut, &len); FINISH; }
extern "C" CK_RV vp_SymDecrypt(void) { SETUP; CK_RV rv = hsm->C_Decrypt(SES(HSESSION), &data[0], IN(inLen), pOut, &len); FINISH; }
extern "C" CK_RV vp_SymDecryptUpdate(void) { SETUP; CK_RV rv = hsm->C_DecryptUpdate(SES(HSESSION), &data[0], IN(inLen), pOut, &len); FINISH; }
extern "C" CK_RV vp_SymDecryptFinal(void) { SETUP; CK_RV rv = hsm->C_DecryptFinal(SES(HSESSION), pOut, &len); FINISH; }
