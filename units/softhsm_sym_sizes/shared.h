#ifndef VP_SYMSZ_SHARED_H
#define VP_SYMSZ_SHARED_H
#include "cipher_env.h"
#define VP_WIN 48
enum vp_in_idx { I_inLen, I_nullOut, I_announced, I_w, VP_IN_N };
enum vp_out_idx { O_len, O_buf_w, VP_OUT_N };
VP_C_BEGIN
extern CK_ULONG vp_in[VP_IN_N];
extern unsigned char vp_in_buf[VP_WIN];
extern CK_ULONG vp_out[VP_OUT_N];
VP_C_END
#define IN(x) vp_in[I_##x]
#define OUT(x) vp_out[O_##x]
#endif
