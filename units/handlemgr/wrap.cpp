// (cbmc: this file is included at the end of the sliced HandleManager.cpp - constructors and destructors of
// locals must be defined in the same translation unit; native twin: separate translation unit)
#include "config.h"
#include "HandleManager.h"
#include "shared.h"

static char vp_things[VP_N + 2];   // the sessions / objects the handles denote (addresses only)

static void build(HandleManager& hm)
{
	for (CK_ULONG i = 0; i < VP_N; i++)
	{
		if (i >= IN(n)) break;
		void* thing = (void*)&vp_things[i];
		if (ENT(i, KIND) == 1) hm.addSession(ENT(i, SLOT), thing);
		else if (ENT(i, TOKOBJ)) hm.addTokenObject(ENT(i, SLOT), ENT(i, PRIV) != 0, thing);
		else hm.addSessionObject(ENT(i, SLOT), ENT(i, HSESS), ENT(i, PRIV) != 0, thing);
	}
}

static void* thing_of(CK_ULONG w) { return (w >= 1 && w <= VP_N) ? (void*)&vp_things[w - 1] : (void*)&vp_things[VP_N + 1]; }

extern "C" void vp_purge(void)
{
	HandleManager hm;
	build(hm);
	CK_ULONG w = IN(w);
	OUT(cnt_before) = hm.handleCounter;
	OUT(sess_before) = hm.getSession(w) != NULL;
	OUT(obj_before) = hm.getObject(w) != NULL;
	OUT(rev_before) = hm.getObjectHandle(thing_of(w));
	switch (IN(op))
	{
		case 1: hm.tokenLoggedOut(IN(arg)); break;
		case 2: hm.allSessionsClosed(IN(arg)); break;
		case 3: hm.sessionClosed(IN(arg)); break;
		case 4: hm.destroyObject(IN(arg)); break;
	}
	OUT(cnt_after) = hm.handleCounter;
	OUT(sess_after) = hm.getSession(w) != NULL;
	OUT(obj_after) = hm.getObject(w) != NULL;
	OUT(rev_after) = hm.getObjectHandle(thing_of(w));
}

extern "C" void vp_add(void)
{
	HandleManager hm;
	build(hm);
	CK_ULONG w = IN(w);
	OUT(cnt_before) = hm.handleCounter;
	OUT(sess_before) = hm.getSession(w) != NULL;
	OUT(obj_before) = hm.getObject(w) != NULL;
	OUT(rev_before) = hm.getObjectHandle(thing_of(w));
	void* thing = IN(addObj) < VP_N ? (void*)&vp_things[IN(addObj)] : (void*)&vp_things[VP_N];
	CK_ULONG h;
	if (IN(addKind) == 1) h = hm.addSession(IN(addSlot), thing);
	else if (IN(addKind) == 2) h = hm.addSessionObject(IN(addSlot), IN(addHsess), IN(addPriv) != 0, thing);
	else h = hm.addTokenObject(IN(addSlot), IN(addPriv) != 0, thing);
	OUT(ret) = h;
	OUT(cnt_after) = hm.handleCounter;
	OUT(probe_new_obj) = hm.getSession(h) == thing ? 1 : (hm.getObject(h) == thing ? 2 : 0);
	OUT(sess_after) = hm.getSession(w) != NULL;
	OUT(obj_after) = hm.getObject(w) != NULL;
	OUT(rev_after) = hm.getObjectHandle(thing_of(w));
}
