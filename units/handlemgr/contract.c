/* C11: HandleManager.  A table is built through the real add* functions from an arbitrary description of <= 3
 * entries; then one operation runs; then the witness handle w (any 64-bit value) is probed with the real lookups.
 * Oracle: property C11 - after a purge exactly the affected handles are invalid, every other handle keeps working;
 * handles are issued strictly increasing and never twice. */
#include "shared.h"

CK_ULONG vp_in[VP_IN_N];
CK_ULONG vp_in_tab[VP_N * VP_NEF];
CK_ULONG vp_out[VP_OUT_N];
CK_RV vp_rv;

#define N IN(n)
#define W IN(w)
#define WI (W - 1)                               /* index of the entry the witness denotes, when W in 1..n */
#define W_VALID (W >= 1 && W <= N)
#define IS_S(i) (ENT(i, KIND) == 1)
#define IS_O(i) (ENT(i, KIND) == 2)
/* owning session as the handle table stores it: token objects have none */
#define HS(i) (ENT(i, TOKOBJ) ? 0UL : ENT(i, HSESS))
#define KIND_OK(i) ((i) >= VP_N || ENT(i, KIND) == 1 || ENT(i, KIND) == 2)
#define WELL_FORMED (N <= VP_N && KIND_OK(0) && KIND_OK(1) && KIND_OK(2))

/* ---- purges: op 1 tokenLoggedOut(slot=arg) 2 allSessionsClosed(slot=arg) 3 sessionClosed(h=arg) 4 destroyObject(h=arg) */
#define A IN(arg)
#define A_IS_SESSION (A >= 1 && A <= N && IS_S(A - 1))
#define A_SLOT ENT(A - 1, SLOT)
/* another session of the closed session's slot remains */
#define OTHER(i) ((i) < VP_N && (i) < N && (i) != A - 1 && IS_S(i) && ENT(i, SLOT) == A_SLOT)
#define OTHER_SESSION (OTHER(0) || OTHER(1) || OTHER(2))
#define PURGED(i) ( \
   IN(op) == 1 ? (IS_O(i) && ENT(i, SLOT) == A && ENT(i, PRIV)) : \
   IN(op) == 2 ? (ENT(i, SLOT) == A) : \
   IN(op) == 3 ? (A_IS_SESSION && ((i) == A - 1 || (IS_O(i) && HS(i) == A) || (!OTHER_SESSION && ENT(i, SLOT) == A_SLOT))) : \
                 ((i) == A - 1 && IS_O(i)) )

void vp_purge(void)
__CPROVER_requires(WELL_FORMED && IN(op) >= 1 && IN(op) <= 4)
/* lookups before the operation: a handle resolves iff it was issued, and only as the kind it was issued for */
__CPROVER_ensures(OUT(sess_before) == (W_VALID && IS_S(WI)))
__CPROVER_ensures(OUT(obj_before) == (W_VALID && IS_O(WI)))
__CPROVER_ensures(OUT(rev_before) == ((W_VALID && IS_O(WI)) ? W : 0))
/* exactly the affected handles die, every other handle keeps working */
__CPROVER_ensures(OUT(sess_after) == (W_VALID && IS_S(WI) && !PURGED(WI)))
__CPROVER_ensures(OUT(obj_after) == (W_VALID && IS_O(WI) && !PURGED(WI)))
/* the reverse map stays consistent with the forward map */
__CPROVER_ensures(OUT(rev_after) == ((W_VALID && IS_O(WI) && !PURGED(WI)) ? W : 0))
/* purging never issues or recycles handle numbers */
__CPROVER_ensures(OUT(cnt_after) == OUT(cnt_before) && OUT(cnt_before) == N)
__CPROVER_assigns(__CPROVER_object_whole(vp_out));

/* ---- issue: one more add* on the table */
#define RE (IN(addObj) < N && IS_O(IN(addObj)))                     /* the object is already registered (as entry addObj) */
#define RE_SAME_SLOT (ENT(IN(addObj), SLOT) == IN(addSlot))
void vp_add(void)
__CPROVER_requires(WELL_FORMED && (IN(addKind) == 1 || IN(addKind) == 2 || IN(addKind) == 3) && IN(addObj) <= 3)
__CPROVER_requires(IN(addObj) == 3 || (IN(addObj) < N && IS_O(IN(addObj)) && IN(addKind) != 1))
/* a new handle is the old counter + 1: larger than every handle ever issued, never CK_INVALID_HANDLE */
__CPROVER_ensures((IN(addKind) == 1 || !RE) ==> (OUT(ret) == N + 1 && OUT(cnt_after) == N + 1))
/* registering an object twice gives the same handle back and consumes no number; a slot mismatch gives none */
__CPROVER_ensures((IN(addKind) != 1 && RE && RE_SAME_SLOT) ==> (OUT(ret) == IN(addObj) + 1 && OUT(cnt_after) == N))
__CPROVER_ensures((IN(addKind) != 1 && RE && !RE_SAME_SLOT) ==> (OUT(ret) == 0 && OUT(cnt_after) == N))
/* the new handle resolves to what was registered, as the right kind */
__CPROVER_ensures((IN(addKind) == 1) ==> (OUT(probe_new_obj) == 1))
__CPROVER_ensures((IN(addKind) != 1 && !RE) ==> (OUT(probe_new_obj) == 2))
/* every handle issued before still denotes the same thing */
__CPROVER_ensures(OUT(sess_before) == (W_VALID && IS_S(WI)))
__CPROVER_ensures((W != OUT(ret)) ==> (OUT(sess_after) == OUT(sess_before)))
/* (a slot-mismatch re-registration drops the stale reverse entry of that object: excluded) */
__CPROVER_ensures((W != OUT(ret) && !(IN(addKind) != 1 && RE && !RE_SAME_SLOT)) ==> (OUT(obj_after) == OUT(obj_before) && OUT(rev_after) == OUT(rev_before)))
__CPROVER_ensures(OUT(cnt_after) >= OUT(cnt_before))
__CPROVER_assigns(__CPROVER_object_whole(vp_out));

void vp_call_purge(void) { vp_purge(); }
void vp_call_add(void) { vp_add(); }
#define HAVOC() do { __CPROVER_havoc_object(vp_in); __CPROVER_havoc_object(vp_in_tab); } while (0)
void h_purge(void) { HAVOC(); vp_call_purge();
  VP_COVER(N == VP_N && IN(op) == 1 && OUT(obj_before) && !OUT(obj_after)); VP_COVER(N == VP_N && IN(op) == 3 && OUT(obj_before) && OUT(obj_after) && A_IS_SESSION);
  VP_COVER(IN(op) == 3 && OUT(obj_before) && !OUT(obj_after) && ENT(WI, TOKOBJ)); VP_COVER(IN(op) == 4 && OUT(obj_before) && !OUT(obj_after)); VP_COVER(IN(op) == 2 && OUT(sess_before) && OUT(sess_after)); }
void h_add(void) { HAVOC(); vp_call_add();
  VP_COVER(N == VP_N && OUT(ret) == VP_N + 1); VP_COVER(OUT(ret) == 2 && N == 2); VP_COVER(OUT(ret) == 0 && N == VP_N); VP_COVER(IN(addKind) == 1 && OUT(ret) == 1); }
