#ifndef VP_HM_SHARED_H
#define VP_HM_SHARED_H
#include "vp.h"
#ifndef VP_N
#define VP_N 3
#endif
/* table entry i (handle i+1): kind 1 session / 2 object; slot; owning session handle (objects); token object?; private? */
enum vp_ef { EF_KIND, EF_SLOT, EF_HSESS, EF_TOKOBJ, EF_PRIV, VP_NEF };
enum vp_in_idx { I_n, I_op, I_arg, I_w,
                 /* add: */ I_addKind, I_addSlot, I_addHsess, I_addPriv, I_addObj /* 0..2 = re-register entry's object, 3 = a new object */, VP_IN_N };
enum vp_out_idx { O_sess_before, O_obj_before, O_sess_after, O_obj_after, O_rev_before, O_rev_after, O_ret, O_cnt_before, O_cnt_after, O_probe_new_obj, VP_OUT_N };
VP_C_BEGIN
extern CK_ULONG vp_in[VP_IN_N];
extern CK_ULONG vp_in_tab[VP_N * VP_NEF];
extern CK_ULONG vp_out[VP_OUT_N];
VP_C_END
#define IN(x) vp_in[(int)I_##x]
#define OUT(x) vp_out[(int)O_##x]
#define ENT(i, f) vp_in_tab[(i) * (int)VP_NEF + (int)EF_##f]
#endif
