#ifndef VP_P11RET_SHARED_H
#define VP_P11RET_SHARED_H
#include "vp.h"
#include "osobject.h"
#ifndef VP_BUF_MAX
#define VP_BUF_MAX 24
#endif
enum vp_in_idx { I_checks, I_size, I_isPrivate, I_nullValue, I_nullLen, I_announced, I_w, VP_IN_N };
enum vp_out_idx { O_len, O_buf_w, VP_OUT_N };
VP_C_BEGIN
extern CK_ULONG vp_in[VP_IN_N];
extern unsigned char vp_in_buf[VP_BUF_MAX];
extern CK_ULONG vp_out[VP_OUT_N];
VP_C_END
#define IN(x) vp_in[I_##x]
#define OUT(x) vp_out[O_##x]
#endif
