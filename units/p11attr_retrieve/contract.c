/* P11Attribute::retrieve - the reveal guard (C02), the output-length protocol of C_GetAttributeValue (C12)
 * and memory safety of the copy-out (C17: the caller's buffer is a heap object of exactly the announced size,
 * so any write beyond it fails a bounds obligation located in the /repo text). */
#include "shared.h"
#include "k_p11.h"

CK_ULONG vp_in[VP_IN_N];
unsigned char vp_in_buf[VP_BUF_MAX];
CK_ULONG vp_out[VP_OUT_N];
CK_RV vp_rv;

#define CK7 ((IN(checks) & VP_ck7) == VP_ck7)
#define SENSITIVE (OBJB(0, SENSITIVE) == 2)          /* absent => not sensitive */
#define UNEXTRACTABLE (OBJB(0, EXTRACTABLE) == 1)    /* absent => extractable */
#define PROTECTED (CK7 && (SENSITIVE || UNEXTRACTABLE))
#define W_UNCHANGED (OUT(buf_w) == vp_in_buf[IN(w)])
#define W_BEYOND (IN(w) >= IN(announced))
#define KIND OBJX(0, OTHER_KIND)
#ifndef VP_KIND_LO
#define VP_KIND_LO 1
#define VP_KIND_HI 4
#endif

CK_RV vp_retrieve(void)
__CPROVER_requires(IN(announced) <= VP_BUF_MAX && IN(w) < VP_BUF_MAX)
__CPROVER_requires(CNT(VALUE_READS) == 0 && CNT(DECRYPT) == 0)
/* the attribute under test is the object's one attribute of arbitrary type and kind 1..4 */
__CPROVER_requires(OBJX(0, OTHER_TYPE) == CKA_VALUE)
__CPROVER_requires(KIND >= VP_KIND_LO && KIND <= VP_KIND_HI && OBJX(0, OTHER_LEN) <= (KIND == 3 ? VP_BS_MAX : 2))
/* constructor invariant (see unit.json) */
__CPROVER_requires((KIND == 1) ==> (IN(size) == 1))
__CPROVER_requires((KIND == 2) ==> (IN(size) == 8))
__CPROVER_requires((KIND >= 3) ==> (IN(size) == (CK_ULONG)-1))
/* 1. C02: a ck7 attribute of a sensitive or unextractable object is never revealed: exact return code, length
 *    CK_UNAVAILABLE_INFORMATION, no byte of the caller's buffer written (witness index w ranges over the whole
 *    buffer), and the stored value is neither read nor decrypted */
__CPROVER_ensures((PROTECTED && !IN(nullLen)) ==> (__CPROVER_return_value == CKR_ATTRIBUTE_SENSITIVE))
__CPROVER_ensures((PROTECTED && !IN(nullLen)) ==> (OUT(len) == CK_UNAVAILABLE_INFORMATION))
__CPROVER_ensures(PROTECTED ==> (W_UNCHANGED && CNT(VALUE_READS) == 0 && CNT(DECRYPT) == 0))
__CPROVER_ensures(PROTECTED ==> (__CPROVER_return_value != CKR_OK))
/* 2. C12: a length query writes nothing; too-small buffer => CK_UNAVAILABLE_INFORMATION and nothing written */
__CPROVER_ensures((__CPROVER_return_value == CKR_BUFFER_TOO_SMALL) ==> (OUT(len) == CK_UNAVAILABLE_INFORMATION && W_UNCHANGED))
__CPROVER_ensures((__CPROVER_return_value != CKR_OK) ==> W_UNCHANGED)
/* 3. C12: on success with a buffer the reported length never exceeds the announced one */
__CPROVER_ensures((__CPROVER_return_value == CKR_OK && !IN(nullValue)) ==> (OUT(len) <= IN(announced)))
/* 3b. C12/C17: no byte beyond the announced length is ever written, and none at all for a NULL query */
__CPROVER_ensures((W_BEYOND || IN(nullValue)) ==> W_UNCHANGED)
/* 4. fixed-size attributes report their size */
__CPROVER_ensures((__CPROVER_return_value == CKR_OK && KIND == 2) ==> (OUT(len) == 8))
__CPROVER_ensures((__CPROVER_return_value == CKR_OK && KIND == 1) ==> (OUT(len) == 1))
/* 5. a public byte string reports its stored length, a private one the decrypted length */
__CPROVER_ensures((__CPROVER_return_value == CKR_OK && KIND == 3 && !IN(isPrivate)) ==> (OUT(len) == OBJX(0, OTHER_LEN)))
__CPROVER_assigns(__CPROVER_object_whole(vp_out), VP_ENV_FRAME);

void vp_call_retrieve(void) { vp_rv = vp_retrieve(); }

#define HAVOC() do { __CPROVER_havoc_object(vp_in); __CPROVER_havoc_object(vp_in_buf); VP_HAVOC_OBJECTS(); } while (0)

/* one entry per attribute kind (same contract, same binary): keeps each SAT instance small */
void h_retrieve_fixed(void)
{
  HAVOC(); __CPROVER_assume(KIND <= 2);
  vp_call_retrieve();
  VP_COVER(vp_rv == CKR_ATTRIBUTE_SENSITIVE);
  VP_COVER(vp_rv == CKR_OK && KIND == 2 && !IN(nullValue));
  VP_COVER(vp_rv == CKR_OK && KIND == 1 && !IN(nullValue));
  VP_COVER(vp_rv == CKR_BUFFER_TOO_SMALL);
  VP_COVER(vp_rv == CKR_OK && IN(nullValue));
}

void h_retrieve_bytes(void)
{
  HAVOC(); __CPROVER_assume(KIND == 3);
  vp_call_retrieve();
  VP_COVER(vp_rv == CKR_ATTRIBUTE_SENSITIVE);
  VP_COVER(vp_rv == CKR_OK && IN(isPrivate) && !IN(nullValue) && OUT(len) == 5);
  VP_COVER(vp_rv == CKR_OK && !IN(isPrivate) && !IN(nullValue) && OUT(len) == 8);
  VP_COVER(vp_rv == CKR_BUFFER_TOO_SMALL);
  VP_COVER(vp_rv == CKR_OK && IN(nullValue));
}

void h_retrieve_mechset(void)
{
  HAVOC(); __CPROVER_assume(KIND == 4);
  vp_call_retrieve();
  VP_COVER(vp_rv == CKR_ATTRIBUTE_SENSITIVE);
  VP_COVER(vp_rv == CKR_OK && !IN(nullValue) && OUT(len) == 16);
  VP_COVER(vp_rv == CKR_BUFFER_TOO_SMALL);
}
