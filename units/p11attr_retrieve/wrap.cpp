#include "config.h"
#include "P11Attributes.h"
#include "shared.h"

#ifdef VP_NATIVE
class VpAttr : public P11Attribute
{
public:
	VpAttr(OSObject* o) : P11Attribute(o) {}
	virtual bool setDefault() { return true; }
};
#define ATTR VpAttr
#else
#define ATTR P11Attribute
#endif

extern "C" CK_RV vp_retrieve(void)
{
	long tok_store[(sizeof(Token) + 7) / 8]; Token* tok = (Token*)(void*)&tok_store[0];
	CK_ULONG n = IN(announced);
	// the caller's buffer: VP_BUF_MAX bytes of which the first `announced` belong to the callee; the witness
	// index w ranges over the WHOLE array, so a write beyond the announced length is seen as a changed byte
	// (and a write beyond VP_BUF_MAX fails a bounds obligation)
	unsigned char buf[VP_BUF_MAX];
	memcpy(buf, vp_in_buf, VP_BUF_MAX);
	CK_ULONG len = n;
	ATTR a(vp_obj(0));
	a.checks = IN(checks);
	a.size = IN(size);
	a.type = OBJX(0, OTHER_TYPE);
	CK_RV rv = a.retrieve(tok, IN(isPrivate) != 0, IN(nullValue) ? (CK_VOID_PTR)0 : (CK_VOID_PTR)&buf[0], IN(nullLen) ? (CK_ULONG_PTR)0 : &len);
	OUT(len) = len;
	OUT(buf_w) = buf[IN(w)];
	return rv;
}

