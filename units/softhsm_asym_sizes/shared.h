#ifndef VP_ASZ_SHARED_H
#define VP_ASZ_SHARED_H
#include "softhsm_env.h"
#define VP_DATA 24     /* caller's input buffer */
#define VP_OUTW 24     /* caller's output window */
#define VP_SIG 16      /* longest output of a primitive in the environment */
enum vp_in_idx { I_macNull, I_asymNull, I_keyNull, I_amech, I_size, I_datalen, I_buflen, I_lenNull, I_prim_ok, I_prim_outlen, I_w, I_siglen_in, VP_IN_N };
enum vp_out_idx { O_prim_n, O_prim_datalen, O_prim_data0, O_prim_datalast, O_prim_mech, O_prim_siglen, O_len_after, O_out_w, O_fin_n, VP_OUT_N };
VP_C_BEGIN
extern CK_ULONG vp_in[VP_IN_N];
extern unsigned char vp_in_data[VP_DATA];
extern unsigned char vp_in_sig[VP_SIG];       /* what the primitive produces */
extern CK_ULONG vp_out[VP_OUT_N];
VP_C_END
#define IN(x) vp_in[(int)I_##x]
#define OUT(x) vp_out[(int)O_##x]
#endif
