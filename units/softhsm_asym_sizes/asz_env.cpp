// environment of C_Sign / C_Verify / C_Encrypt and their static helpers MacSign, AsymSign, MacVerify, AsymVerify, AsymEncrypt
// (cbmc: included at the end of the sliced SoftHSM.cpp): the operation objects of the session and the primitives answer
// ghost values; what a primitive is handed is recorded
#include "MacAlgorithm.h"
#include "AsymmetricAlgorithm.h"
#include "shared.h"
static long vp_mac_store[16], vp_asym_store[16], vp_key_store[32];
MacAlgorithm* Session::getMacOp() { return IN(macNull) ? (MacAlgorithm*)0 : (MacAlgorithm*)(void*)&vp_mac_store[0]; }
AsymmetricAlgorithm* Session::getAsymmetricCryptoOp() { return IN(asymNull) ? (AsymmetricAlgorithm*)0 : (AsymmetricAlgorithm*)(void*)&vp_asym_store[0]; }
SymmetricAlgorithm* Session::getSymmetricCryptoOp() { return (SymmetricAlgorithm*)0; }     // (the symmetric branch: unit softhsm_sym_sizes)
AsymMech::Type Session::getMechanism() { return (AsymMech::Type)IN(amech); }
PrivateKey* Session::getPrivateKey() { return IN(keyNull) ? (PrivateKey*)0 : (PrivateKey*)(void*)&vp_key_store[0]; }
PublicKey* Session::getPublicKey() { return IN(keyNull) ? (PublicKey*)0 : (PublicKey*)(void*)&vp_key_store[0]; }
void* Session::getParameters(size_t& inParamLen) { inParamLen = 0; return (void*)0; }
unsigned long PrivateKey::getOutputLength() const { return IN(size); }
unsigned long PublicKey::getOutputLength() const { return IN(size); }
size_t MacAlgorithm::getMacSize() const { return IN(size); }
static void rec(const ByteString& data, int mech, size_t siglen)
{
	OUT(prim_n)++; OUT(prim_datalen) = data.size(); OUT(prim_data0) = data.size() ? data.const_byte_str()[0] : 0x100; OUT(prim_datalast) = data.size() ? data.const_byte_str()[data.size() - 1] : 0x100;
	OUT(prim_mech) = (CK_ULONG)mech; OUT(prim_siglen) = siglen;
}
static bool produce(ByteString& out)
{
	if (!IN(prim_ok)) return false;
	CK_ULONG n = IN(prim_outlen) > VP_SIG ? VP_SIG : IN(prim_outlen);
	ByteString v(vp_in_sig, n); out = v; return true;
}
static ByteString vp_pending;   // data given to signUpdate / verifyUpdate, reported with the matching Final
bool MacAlgorithm::signUpdate(const ByteString& d) { rec(d, -1, 0); return IN(prim_ok) != 0; }
bool MacAlgorithm::signFinal(ByteString& signature) { OUT(fin_n)++; return produce(signature); }
bool MacAlgorithm::verifyUpdate(const ByteString& d) { rec(d, -1, 0); return IN(prim_ok) != 0; }
bool MacAlgorithm::verifyFinal(ByteString& signature) { OUT(fin_n)++; OUT(prim_siglen) = signature.size(); return IN(prim_ok) != 0; }
bool AsymmetricAlgorithm::sign(PrivateKey*, const ByteString& d, ByteString& signature, const AsymMech::Type m, const void*, const size_t) { rec(d, (int)m, 0); return produce(signature); }
bool AsymmetricAlgorithm::signUpdate(const ByteString& d) { rec(d, -2, 0); return IN(prim_ok) != 0; }
bool AsymmetricAlgorithm::signFinal(ByteString& signature) { OUT(fin_n)++; return produce(signature); }
bool AsymmetricAlgorithm::verify(PublicKey*, const ByteString& d, const ByteString& signature, const AsymMech::Type m, const void*, const size_t) { rec(d, (int)m, signature.size()); return IN(prim_ok) != 0; }
bool AsymmetricAlgorithm::verifyUpdate(const ByteString& d) { rec(d, -2, 0); return IN(prim_ok) != 0; }
bool AsymmetricAlgorithm::verifyFinal(const ByteString& signature) { OUT(fin_n)++; OUT(prim_siglen) = signature.size(); return IN(prim_ok) != 0; }
bool AsymmetricAlgorithm::encrypt(PublicKey*, const ByteString& d, ByteString& encryptedData, const AsymMech::Type m) { rec(d, (int)m, 0); return produce(encryptedData); }

// ---- digest operation
#include "HashAlgorithm.h"
static long vp_hash_store[16];
HashAlgorithm* Session::getDigestOp() { return (HashAlgorithm*)(void*)&vp_hash_store[0]; }
int HashAlgorithm::getHashSize() { return (int)IN(size); }
bool HashAlgorithm::hashUpdate(const ByteString& d) { rec(d, -3, 0); return IN(prim_ok) != 0; }
bool HashAlgorithm::hashFinal(ByteString& hashedData) { OUT(fin_n)++; return produce(hashedData); }
#define SETUP VP_MK_HSM(); unsigned char data[VP_DATA]; memcpy(data, vp_in_data, VP_DATA); unsigned char out[VP_OUTW]; for (int i = 0; i < VP_OUTW; i++) out[i] = 0xAA; \
	CK_ULONG len = IN(buflen); CK_BYTE_PTR pOut = SES(NULL_OUT) ? (CK_BYTE_PTR)0 : &out[0]; CK_ULONG_PTR pLen = IN(lenNull) ? (CK_ULONG_PTR)0 : &len
#define FINISH OUT(len_after) = len; OUT(out_w) = IN(w) < VP_OUTW ? out[IN(w)] : 0xAA; return rv
extern "C" CK_RV vp_sign1(void) { SETUP; CK_RV rv = hsm->C_Sign(SES(HSESSION), &data[0], IN(datalen), pOut, pLen); FINISH; }
extern "C" CK_RV vp_encrypt1(void) { SETUP; CK_RV rv = hsm->C_Encrypt(SES(HSESSION), &data[0], IN(datalen), pOut, pLen); FINISH; }
bool AsymmetricAlgorithm::decrypt(PrivateKey*, const ByteString& d, ByteString& data, const AsymMech::Type m) { rec(d, (int)m, 0); return produce(data); }
extern "C" CK_RV vp_decrypt1(void) { SETUP; CK_RV rv = hsm->C_Decrypt(SES(HSESSION), &data[0], IN(datalen), pOut, pLen); FINISH; }
extern "C" CK_RV vp_signfinal1(void) { SETUP; CK_RV rv = hsm->C_SignFinal(SES(HSESSION), pOut, pLen); FINISH; }
extern "C" CK_RV vp_digestfinal1(void) { SETUP; CK_RV rv = hsm->C_DigestFinal(SES(HSESSION), pOut, pLen); FINISH; }
extern "C" CK_RV vp_digest1(void) { SETUP; CK_RV rv = hsm->C_Digest(SES(HSESSION), &data[0], IN(datalen), pOut, pLen); FINISH; }
extern "C" CK_RV vp_verify1(void)
{
	SETUP; unsigned char sig[VP_OUTW]; for (int i = 0; i < VP_OUTW; i++) sig[i] = vp_in_sig[i % VP_SIG];
	CK_RV rv = hsm->C_Verify(SES(HSESSION), &data[0], IN(datalen), SES(NULL_OUT) ? (CK_BYTE_PTR)0 : &sig[0], IN(siglen_in)); FINISH;
}
extern "C" CK_RV vp_verifyfinal1(void)
{
	SETUP; unsigned char sig[VP_OUTW]; for (int i = 0; i < VP_OUTW; i++) sig[i] = vp_in_sig[i % VP_SIG];
	CK_RV rv = hsm->C_VerifyFinal(SES(HSESSION), SES(NULL_OUT) ? (CK_BYTE_PTR)0 : &sig[0], IN(siglen_in)); FINISH;
}
