/* C12 (honest output-length protocol of the single-part asymmetric / MAC calls: "the fixed ... MAC, signature or modulus
 * size"; a size query or CKR_BUFFER_TOO_SMALL leaves the operation active; a finished or failed operation is gone; nothing is
 * written beyond what is reported) and C17 (no length makes the library die): the whole C_Sign, C_Verify, C_Encrypt with their
 * static helpers MacSign, AsymSign, MacVerify, AsymVerify, AsymEncrypt.  C07: a key that needs re-authentication signs nothing. */
#include "shared.h"
CK_ULONG vp_in[VP_IN_N];
unsigned char vp_in_data[VP_DATA];
unsigned char vp_in_sig[VP_SIG];
CK_ULONG vp_out[VP_OUT_N];
CK_RV vp_rv;
VP_SOFTHSM_CALLEE_CONTRACTS
#define RV __CPROVER_return_value
#define SIZE IN(size)
#define RAW (IN(amech) == 1)                 /* AsymMech::RSA: raw RSA, the input is left-padded with zeros to the modulus size */
#define MAC (VP_HASMAC && !IN(macNull))
#define ACTIVE(OP) (SES(INIT) && SES(VALID) && SES(OPTYPE) == (OP))
/* the operation object is complete and may be used single-part */
#define READY (SES(ALLOW_SINGLE) && (MAC || (!IN(asymNull) && !IN(keyNull))))
#define OUT_ZERO (OUT(prim_n) == 0 && OUT(len_after) == 0 && OUT(out_w) == 0 && OUT(fin_n) == 0)
#define PRE (IN(amech) <= 40 /* a value of the AsymMech enumeration */ && VP_FRESH_GHOST && OUT_ZERO && SES(OPTYPE) <= 0x10 && SIZE <= VP_SIG && IN(datalen) <= VP_DATA && IN(buflen) <= VP_OUTW && !IN(lenNull) && IN(siglen_in) <= VP_OUTW)
#define UNTOUCHED (OUT(out_w) == 0xAA)
#define PL (IN(prim_outlen) > VP_SIG ? VP_SIG : IN(prim_outlen))
/* the input a primitive is handed: the caller's bytes, for raw RSA behind zero bytes up to the modulus size */
#define DATA_AS_GIVEN (OUT(prim_datalen) == IN(datalen) && (IN(datalen) == 0 || (OUT(prim_data0) == vp_in_data[0] && OUT(prim_datalast) == vp_in_data[IN(datalen) - 1])))
#define DATA_PADDED (OUT(prim_datalen) == SIZE && IN(datalen) <= SIZE && (IN(datalen) == 0 || OUT(prim_datalast) == vp_in_data[IN(datalen) - 1]) && (IN(datalen) == SIZE || OUT(prim_data0) == 0))

#define K_OUT(OP, REAUTH_BLOCKS) \
  __CPROVER_requires(PRE) \
  __CPROVER_ensures((!SES(INIT) || !SES(VALID)) ==> (RV != CKR_OK && VP_NO_EFFECT && OUT(prim_n) == 0 && UNTOUCHED)) \
  __CPROVER_ensures((SES(INIT) && SES(VALID) && SES(OPTYPE) != (OP)) ==> (RV == CKR_OPERATION_NOT_INITIALIZED && VP_NO_EFFECT && OUT(prim_n) == 0 && UNTOUCHED)) \
  /* an incomplete operation is given up */ \
  __CPROVER_ensures((ACTIVE(OP) && !READY) ==> (RV == CKR_OPERATION_NOT_INITIALIZED && SFX(RESETOP_N) == 1 && OUT(prim_n) == 0 && UNTOUCHED)) \
  /* C07: no output before the context-specific login */ \
  __CPROVER_ensures((ACTIVE(OP) && READY && !MAC && (REAUTH_BLOCKS) && SES(REAUTH)) ==> (RV == CKR_USER_NOT_LOGGED_IN && SFX(RESETOP_N) == 1 && OUT(prim_n) == 0 && UNTOUCHED)) \
  /* C12: size query and too-small buffer: the fixed size is reported, the operation stays, nothing is computed or written */ \
  __CPROVER_ensures((ACTIVE(OP) && READY && !(!MAC && (REAUTH_BLOCKS) && SES(REAUTH)) && SES(NULL_OUT)) ==> (RV == CKR_OK && OUT(len_after) == SIZE && SFX(RESETOP_N) == 0 && OUT(prim_n) == 0)) \
  __CPROVER_ensures((ACTIVE(OP) && READY && !(!MAC && (REAUTH_BLOCKS) && SES(REAUTH)) && !SES(NULL_OUT) && IN(buflen) < SIZE) ==> \
                    (RV == CKR_BUFFER_TOO_SMALL && OUT(len_after) == SIZE && SFX(RESETOP_N) == 0 && OUT(prim_n) == 0 && UNTOUCHED)) \
  /* C17 / C12: raw RSA takes at most a modulus worth of input; more is refused (and never turned into an allocation) */ \
  __CPROVER_ensures((ACTIVE(OP) && READY && !MAC && RAW && !SES(NULL_OUT) && IN(buflen) >= SIZE && !((REAUTH_BLOCKS) && SES(REAUTH)) && IN(datalen) > SIZE) ==> \
                    (RV != CKR_OK && SFX(RESETOP_N) == 1 && OUT(prim_n) == 0 && UNTOUCHED)) \
  /* the primitive gets the caller's data (raw RSA: zero-padded to the modulus size) */ \
  __CPROVER_ensures((OUT(prim_n) > 0) ==> (OUT(prim_n) == 1 && ((!MAC && RAW) ? DATA_PADDED : DATA_AS_GIVEN))) \
  /* success: exactly `size` bytes - the primitive's output - are written, the length says so, the operation is over */ \
  __CPROVER_ensures((RV == CKR_OK && !SES(NULL_OUT)) ==> (OUT(prim_n) == 1 && IN(prim_ok) && PL == SIZE && OUT(len_after) == SIZE && SIZE <= IN(buflen) && SFX(RESETOP_N) == 1 && \
                                                       OUT(out_w) == ((IN(w) < SIZE) ? vp_in_sig[IN(w) < VP_SIG ? IN(w) : 0] : 0xAA))) \
  /* any other outcome: the operation is gone and nothing was written */ \
  __CPROVER_ensures((RV != CKR_OK && RV != CKR_BUFFER_TOO_SMALL && ACTIVE(OP)) ==> (SFX(RESETOP_N) == 1 && UNTOUCHED)) \
  __CPROVER_ensures(SFX(SETOPTYPE_N) == 0 && CNT(SET) == 0) \
  __CPROVER_assigns(__CPROVER_object_whole(vp_out), VP_SOFTHSM_FRAME)

#define VP_HASMAC 1
CK_RV vp_sign1(void) K_OUT(0x5, 1);
#undef VP_HASMAC
#define VP_HASMAC 0     /* C_Encrypt has no MAC branch */
CK_RV vp_encrypt1(void) K_OUT(0x2, 0);
#undef VP_HASMAC
#define VP_HASMAC 1
/* C_Verify: the signature must have exactly the fixed size; the operation always ends */
CK_RV vp_verify1(void)
__CPROVER_requires(PRE && !SES(NULL_OUT))
__CPROVER_ensures((SES(INIT) && SES(VALID) && SES(OPTYPE) != 0x6) ==> (RV == CKR_OPERATION_NOT_INITIALIZED && VP_NO_EFFECT && OUT(prim_n) == 0))
__CPROVER_ensures((ACTIVE(0x6) && !READY) ==> (RV == CKR_OPERATION_NOT_INITIALIZED && SFX(RESETOP_N) == 1 && OUT(prim_n) == 0))
__CPROVER_ensures((ACTIVE(0x6) && READY && IN(siglen_in) != SIZE) ==> (RV == CKR_SIGNATURE_LEN_RANGE && SFX(RESETOP_N) == 1 && OUT(prim_n) == 0))
__CPROVER_ensures((ACTIVE(0x6) && READY && !MAC && RAW && IN(siglen_in) == SIZE && IN(datalen) > SIZE) ==> (RV != CKR_OK && SFX(RESETOP_N) == 1 && OUT(prim_n) == 0))
__CPROVER_ensures((OUT(prim_n) > 0) ==> (OUT(prim_n) == 1 && (!IN(prim_ok) || OUT(prim_siglen) == SIZE) && ((!MAC && RAW) ? DATA_PADDED : DATA_AS_GIVEN)))
__CPROVER_ensures((RV == CKR_OK) ==> (OUT(prim_n) == 1 && IN(prim_ok)))
__CPROVER_ensures(ACTIVE(0x6) ==> SFX(RESETOP_N) == 1)
__CPROVER_ensures(UNTOUCHED && SFX(SETOPTYPE_N) == 0 && CNT(SET) == 0)
__CPROVER_assigns(__CPROVER_object_whole(vp_out), VP_SOFTHSM_FRAME);

/* C_Decrypt, asymmetric branch: the plaintext may be shorter than the modulus; the size query reports the modulus size (an
 * upper bound), success reports the exact length and writes exactly that many bytes */
#undef VP_HASMAC
#define VP_HASMAC 0
CK_RV vp_decrypt1(void)
__CPROVER_requires(PRE)
__CPROVER_ensures((SES(INIT) && SES(VALID) && SES(OPTYPE) != 0x3) ==> (RV == CKR_OPERATION_NOT_INITIALIZED && VP_NO_EFFECT && OUT(prim_n) == 0 && UNTOUCHED))
__CPROVER_ensures((ACTIVE(0x3) && !READY) ==> (RV == CKR_OPERATION_NOT_INITIALIZED && SFX(RESETOP_N) == 1 && OUT(prim_n) == 0 && UNTOUCHED))
__CPROVER_ensures((ACTIVE(0x3) && READY && SES(REAUTH)) ==> (RV == CKR_USER_NOT_LOGGED_IN && SFX(RESETOP_N) == 1 && OUT(prim_n) == 0 && UNTOUCHED))
__CPROVER_ensures((ACTIVE(0x3) && READY && !SES(REAUTH) && SES(NULL_OUT)) ==> (RV == CKR_OK && OUT(len_after) == SIZE && SFX(RESETOP_N) == 0 && OUT(prim_n) == 0))
__CPROVER_ensures((ACTIVE(0x3) && READY && !SES(REAUTH) && !SES(NULL_OUT) && IN(buflen) < SIZE) ==> (RV == CKR_BUFFER_TOO_SMALL && OUT(len_after) == SIZE && SFX(RESETOP_N) == 0 && OUT(prim_n) == 0 && UNTOUCHED))
__CPROVER_ensures((OUT(prim_n) > 0) ==> (OUT(prim_n) == 1 && DATA_AS_GIVEN))
__CPROVER_ensures((RV == CKR_OK && !SES(NULL_OUT)) ==> (OUT(prim_n) == 1 && IN(prim_ok) && PL <= SIZE && OUT(len_after) == PL && SFX(RESETOP_N) == 1 && OUT(out_w) == ((IN(w) < PL) ? vp_in_sig[IN(w) < VP_SIG ? IN(w) : 0] : 0xAA)))
__CPROVER_ensures((RV != CKR_OK && RV != CKR_BUFFER_TOO_SMALL && ACTIVE(0x3)) ==> (SFX(RESETOP_N) == 1 && UNTOUCHED))
__CPROVER_ensures(SFX(SETOPTYPE_N) == 0 && CNT(SET) == 0)
__CPROVER_assigns(__CPROVER_object_whole(vp_out), VP_SOFTHSM_FRAME);
#undef VP_HASMAC
#define VP_HASMAC 1
/* C_SignFinal (MacSignFinal / AsymSignFinal): the multi-part signature has the same fixed size and the same protocol */
#define FREADY (MAC || (!IN(asymNull) && !IN(keyNull)))
CK_RV vp_signfinal1(void)
__CPROVER_requires(PRE)
__CPROVER_ensures((SES(INIT) && SES(VALID) && (SES(OPTYPE) != 0x5 || !SES(ALLOW_MULTI))) ==> (RV == CKR_OPERATION_NOT_INITIALIZED && VP_NO_EFFECT && OUT(fin_n) == 0 && UNTOUCHED))
#define FACT (ACTIVE(0x5) && SES(ALLOW_MULTI))
__CPROVER_ensures((FACT && !FREADY) ==> (RV == CKR_OPERATION_NOT_INITIALIZED && SFX(RESETOP_N) == 1 && OUT(fin_n) == 0 && UNTOUCHED))
__CPROVER_ensures((FACT && FREADY && !MAC && SES(REAUTH)) ==> (RV == CKR_USER_NOT_LOGGED_IN && SFX(RESETOP_N) == 1 && OUT(fin_n) == 0 && UNTOUCHED))
__CPROVER_ensures((FACT && FREADY && !(!MAC && SES(REAUTH)) && SES(NULL_OUT)) ==> (RV == CKR_OK && OUT(len_after) == SIZE && SFX(RESETOP_N) == 0 && OUT(fin_n) == 0))
__CPROVER_ensures((FACT && FREADY && !(!MAC && SES(REAUTH)) && !SES(NULL_OUT) && IN(buflen) < SIZE) ==> (RV == CKR_BUFFER_TOO_SMALL && OUT(len_after) == SIZE && SFX(RESETOP_N) == 0 && OUT(fin_n) == 0 && UNTOUCHED))
__CPROVER_ensures((RV == CKR_OK && !SES(NULL_OUT)) ==> (OUT(fin_n) == 1 && IN(prim_ok) && PL == SIZE && OUT(len_after) == SIZE && SIZE <= IN(buflen) && SFX(RESETOP_N) == 1 && OUT(out_w) == ((IN(w) < SIZE) ? vp_in_sig[IN(w) < VP_SIG ? IN(w) : 0] : 0xAA)))
__CPROVER_ensures((RV != CKR_OK && RV != CKR_BUFFER_TOO_SMALL && FACT) ==> (SFX(RESETOP_N) == 1 && UNTOUCHED))
__CPROVER_ensures(OUT(fin_n) <= 1 && SFX(SETOPTYPE_N) == 0 && CNT(SET) == 0)
__CPROVER_assigns(__CPROVER_object_whole(vp_out), VP_SOFTHSM_FRAME);
/* C_Digest: the fixed digest size */
CK_RV vp_digest1(void)
__CPROVER_requires(PRE && IN(size) <= 0x7fffffff)
__CPROVER_ensures((SES(INIT) && SES(VALID) && SES(OPTYPE) != 0x4) ==> (RV == CKR_OPERATION_NOT_INITIALIZED && VP_NO_EFFECT && OUT(prim_n) == 0 && UNTOUCHED))
__CPROVER_ensures((ACTIVE(0x4) && SES(NULL_OUT)) ==> (RV == CKR_OK && OUT(len_after) == SIZE && SFX(RESETOP_N) == 0 && OUT(prim_n) == 0))
__CPROVER_ensures((ACTIVE(0x4) && !SES(NULL_OUT) && IN(buflen) < SIZE) ==> (RV == CKR_BUFFER_TOO_SMALL && OUT(len_after) == SIZE && SFX(RESETOP_N) == 0 && OUT(prim_n) == 0 && UNTOUCHED))
__CPROVER_ensures((OUT(prim_n) > 0) ==> (OUT(prim_n) == 1 && DATA_AS_GIVEN))
__CPROVER_ensures((RV == CKR_OK && !SES(NULL_OUT)) ==> (OUT(prim_n) == 1 && OUT(fin_n) == 1 && IN(prim_ok) && PL == SIZE && OUT(len_after) == SIZE && SIZE <= IN(buflen) && SFX(RESETOP_N) == 1 && OUT(out_w) == ((IN(w) < SIZE) ? vp_in_sig[IN(w) < VP_SIG ? IN(w) : 0] : 0xAA)))
__CPROVER_ensures((RV != CKR_OK && RV != CKR_BUFFER_TOO_SMALL && ACTIVE(0x4)) ==> (SFX(RESETOP_N) == 1 && UNTOUCHED))
__CPROVER_ensures(SFX(SETOPTYPE_N) == 0 && CNT(SET) == 0)
__CPROVER_assigns(__CPROVER_object_whole(vp_out), VP_SOFTHSM_FRAME);
/* C_DigestFinal: the same fixed size and protocol at the end of a multi-part digest */
CK_RV vp_digestfinal1(void)
__CPROVER_requires(PRE && IN(size) <= 0x7fffffff)
__CPROVER_ensures((SES(INIT) && SES(VALID) && SES(OPTYPE) != 0x4) ==> (RV == CKR_OPERATION_NOT_INITIALIZED && VP_NO_EFFECT && OUT(fin_n) == 0 && UNTOUCHED))
__CPROVER_ensures((ACTIVE(0x4) && SES(NULL_OUT)) ==> (RV == CKR_OK && OUT(len_after) == SIZE && SFX(RESETOP_N) == 0 && OUT(fin_n) == 0))
__CPROVER_ensures((ACTIVE(0x4) && !SES(NULL_OUT) && IN(buflen) < SIZE) ==> (RV == CKR_BUFFER_TOO_SMALL && OUT(len_after) == SIZE && SFX(RESETOP_N) == 0 && OUT(fin_n) == 0 && UNTOUCHED))
__CPROVER_ensures((RV == CKR_OK && !SES(NULL_OUT)) ==> (OUT(fin_n) == 1 && OUT(prim_n) == 0 && IN(prim_ok) && PL == SIZE && OUT(len_after) == SIZE && SIZE <= IN(buflen) && SFX(RESETOP_N) == 1 && OUT(out_w) == ((IN(w) < SIZE) ? vp_in_sig[IN(w) < VP_SIG ? IN(w) : 0] : 0xAA)))
__CPROVER_ensures((RV != CKR_OK && RV != CKR_BUFFER_TOO_SMALL && ACTIVE(0x4)) ==> (SFX(RESETOP_N) == 1 && UNTOUCHED))
__CPROVER_ensures(SFX(SETOPTYPE_N) == 0 && CNT(SET) == 0)
__CPROVER_assigns(__CPROVER_object_whole(vp_out), VP_SOFTHSM_FRAME);
/* C_VerifyFinal (MacVerifyFinal / AsymVerifyFinal): only a signature of exactly the fixed size is looked at; the operation always ends */
CK_RV vp_verifyfinal1(void)
__CPROVER_requires(PRE && !SES(NULL_OUT))
__CPROVER_ensures((SES(INIT) && SES(VALID) && (SES(OPTYPE) != 0x6 || !SES(ALLOW_MULTI))) ==> (RV == CKR_OPERATION_NOT_INITIALIZED && VP_NO_EFFECT && OUT(fin_n) == 0))
#define VFACT (ACTIVE(0x6) && SES(ALLOW_MULTI))
__CPROVER_ensures((VFACT && !FREADY) ==> (RV == CKR_OPERATION_NOT_INITIALIZED && SFX(RESETOP_N) == 1 && OUT(fin_n) == 0))
__CPROVER_ensures((VFACT && FREADY && IN(siglen_in) != SIZE) ==> (RV == CKR_SIGNATURE_LEN_RANGE && SFX(RESETOP_N) == 1 && OUT(fin_n) == 0))
__CPROVER_ensures((VFACT && FREADY && IN(siglen_in) == SIZE) ==> (OUT(fin_n) == 1 && OUT(prim_siglen) == SIZE && RV == (IN(prim_ok) ? CKR_OK : CKR_SIGNATURE_INVALID) && SFX(RESETOP_N) == 1))
__CPROVER_ensures(UNTOUCHED && OUT(prim_n) == 0 && SFX(SETOPTYPE_N) == 0 && CNT(SET) == 0)
__CPROVER_assigns(__CPROVER_object_whole(vp_out), VP_SOFTHSM_FRAME);
void vp_call_C_VerifyFinal(void) { vp_rv = vp_verifyfinal1(); }
void vp_call_C_DigestFinal(void) { vp_rv = vp_digestfinal1(); }
void vp_call_C_SignFinal(void) { vp_rv = vp_signfinal1(); }
void vp_call_C_Digest(void) { vp_rv = vp_digest1(); }
void vp_call_C_Decrypt(void) { vp_rv = vp_decrypt1(); }
void vp_call_C_Sign(void) { vp_rv = vp_sign1(); }
void vp_call_C_Encrypt(void) { vp_rv = vp_encrypt1(); }
void vp_call_C_Verify(void) { vp_rv = vp_verify1(); }
#define HAV() do { VP_HAVOC_SOFTHSM(); __CPROVER_havoc_object(vp_in); __CPROVER_havoc_object(vp_in_data); __CPROVER_havoc_object(vp_in_sig); } while (0)
void h_sign1(void) { HAV(); vp_call_C_Sign(); VP_COVER(vp_rv == CKR_OK && !SES(NULL_OUT) && MAC && SIZE == 16); VP_COVER(vp_rv == CKR_OK && !SES(NULL_OUT) && !MAC && RAW && IN(datalen) == 3 && SIZE == 8);
  VP_COVER(vp_rv == CKR_BUFFER_TOO_SMALL); VP_COVER(vp_rv == CKR_OK && SES(NULL_OUT)); VP_COVER(vp_rv == CKR_USER_NOT_LOGGED_IN); VP_COVER(vp_rv == CKR_GENERAL_ERROR && OUT(prim_n) == 1); }
void h_encrypt1(void) { HAV(); vp_call_C_Encrypt(); VP_COVER(vp_rv == CKR_OK && !SES(NULL_OUT) && RAW && IN(datalen) == SIZE); VP_COVER(vp_rv == CKR_OK && !SES(NULL_OUT) && !RAW); VP_COVER(vp_rv == CKR_BUFFER_TOO_SMALL); VP_COVER(vp_rv == CKR_GENERAL_ERROR); }
void h_decrypt1(void) { HAV(); vp_call_C_Decrypt(); VP_COVER(vp_rv == CKR_OK && !SES(NULL_OUT) && PL == 5 && SIZE == 16); VP_COVER(vp_rv == CKR_OK && !SES(NULL_OUT) && PL == 0); VP_COVER(vp_rv == CKR_BUFFER_TOO_SMALL); VP_COVER(vp_rv == CKR_GENERAL_ERROR && OUT(prim_n) == 1 && IN(prim_ok)); VP_COVER(vp_rv == CKR_USER_NOT_LOGGED_IN); }
void h_signfinal1(void) { HAV(); vp_call_C_SignFinal(); VP_COVER(vp_rv == CKR_OK && !SES(NULL_OUT) && MAC); VP_COVER(vp_rv == CKR_OK && !SES(NULL_OUT) && !MAC); VP_COVER(vp_rv == CKR_BUFFER_TOO_SMALL); VP_COVER(vp_rv == CKR_USER_NOT_LOGGED_IN); VP_COVER(vp_rv == CKR_GENERAL_ERROR); }
void h_digest1(void) { HAV(); vp_call_C_Digest(); VP_COVER(vp_rv == CKR_OK && !SES(NULL_OUT) && SIZE == 16 && IN(datalen) == 0); VP_COVER(vp_rv == CKR_BUFFER_TOO_SMALL); VP_COVER(vp_rv == CKR_OK && SES(NULL_OUT)); VP_COVER(vp_rv == CKR_GENERAL_ERROR && OUT(fin_n) == 1); }
void h_digestfinal1(void) { HAV(); vp_call_C_DigestFinal(); VP_COVER(vp_rv == CKR_OK && !SES(NULL_OUT) && SIZE == 16); VP_COVER(vp_rv == CKR_BUFFER_TOO_SMALL); VP_COVER(vp_rv == CKR_OK && SES(NULL_OUT)); VP_COVER(vp_rv == CKR_GENERAL_ERROR && OUT(fin_n) == 1); }
void h_verifyfinal1(void) { HAV(); vp_call_C_VerifyFinal(); VP_COVER(vp_rv == CKR_OK && MAC); VP_COVER(vp_rv == CKR_OK && !MAC); VP_COVER(vp_rv == CKR_SIGNATURE_LEN_RANGE); VP_COVER(vp_rv == CKR_SIGNATURE_INVALID); }
void h_verify1(void) { HAV(); vp_call_C_Verify(); VP_COVER(vp_rv == CKR_OK && MAC); VP_COVER(vp_rv == CKR_OK && !MAC && RAW); VP_COVER(vp_rv == CKR_SIGNATURE_LEN_RANGE); VP_COVER(vp_rv == CKR_SIGNATURE_INVALID); }
