#ifndef VP_WRAP_SHARED_H
#define VP_WRAP_SHARED_H
#include "softhsm_env.h"
#define VP_WOUT 24     /* caller's output buffer */
#define VP_WMAX 16     /* longest wrapped blob the environment produces */
enum vp_in_idx { I_wrap_rv, I_wrapped_len, I_buflen, I_lenNull, I_w, I_algoNull, I_newKeyNull, I_getKey_rv, I_pk8_len, VP_IN_N };
enum vp_out_idx { O_wrap_n, O_wrap_sym, O_wrap_obj, O_wrap_mech, O_kd_len, O_kd_0, O_kd_is_dec, O_kd_is_pk8, O_getkey_n, O_getkey_kind, O_getkey_obj, O_getalgo_n, O_recalgo_n, O_newkey_n, O_reckey_n,
                  O_len_after, O_out_w, VP_OUT_N };
VP_C_BEGIN
extern CK_ULONG vp_in[VP_IN_N];
extern unsigned char vp_in_wrapped[VP_WMAX];
extern unsigned char vp_in_pk8[8];
extern CK_ULONG vp_out[VP_OUT_N];
VP_C_END
#define IN(x) vp_in[(int)I_##x]
#define OUT(x) vp_out[(int)O_##x]
#endif
