// environment of SoftHSM::C_WrapKey (same translation unit as the sliced SoftHSM.cpp under cbmc): the two wrapping
// primitives (ghost result, ghost blob; what they are handed is recorded), the crypto factory and private-key loading
#include "CryptoFactory.h"
#include "shared.h"

static void rec_wrap(int sym, CK_MECHANISM_PTR pMechanism, OSObject* wrapKey, ByteString& keydata)
{
	OUT(wrap_n)++; OUT(wrap_sym) = sym; OUT(wrap_obj) = (CK_ULONG)vp_obj_index(wrapKey); OUT(wrap_mech) = pMechanism->mechanism;
	OUT(kd_len) = keydata.size(); OUT(kd_0) = keydata.size() ? keydata[0] : 0;
	// provenance of the key data: the output of Token::decrypt made during this call / the PKCS#8 encoding made during this call
	CK_ULONG dl = TOK(DEC_LEN) > VP_BS_MAX ? VP_BS_MAX : TOK(DEC_LEN);
	OUT(kd_is_dec) = CNT(DECRYPT) > 0 && keydata.size() == dl && (dl == 0 || keydata[0] == vp_in_decbytes[0]);
	CK_ULONG pl = IN(pk8_len) > 8 ? 8 : IN(pk8_len);
	OUT(kd_is_pk8) = OUT(getkey_n) > 0 && keydata.size() == pl && (pl == 0 || keydata[0] == vp_in_pk8[0]);
}
static CK_RV do_wrap(ByteString& wrapped)
{
	if (IN(wrap_rv) != CKR_OK) return IN(wrap_rv);
	CK_ULONG len = IN(wrapped_len) > VP_WMAX ? VP_WMAX : IN(wrapped_len);
	ByteString v(vp_in_wrapped, len);
	wrapped = v;
	return CKR_OK;
}
CK_RV SoftHSM::WrapKeySym(CK_MECHANISM_PTR pMechanism, Token*, OSObject* wrapKey, ByteString& keydata, ByteString& wrapped) { rec_wrap(1, pMechanism, wrapKey, keydata); return do_wrap(wrapped); }
CK_RV SoftHSM::WrapKeyAsym(CK_MECHANISM_PTR pMechanism, Token*, OSObject* wrapKey, ByteString& keydata, ByteString& wrapped) { rec_wrap(0, pMechanism, wrapKey, keydata); return do_wrap(wrapped); }

static long vp_cf_store[8], vp_algo_store[16], vp_key_store[64];
CryptoFactory* CryptoFactory::i() { return (CryptoFactory*)(void*)&vp_cf_store[0]; }
AsymmetricAlgorithm* CryptoFactory::getAsymmetricAlgorithm(AsymAlgo::Type) { OUT(getalgo_n)++; return IN(algoNull) ? (AsymmetricAlgorithm*)0 : (AsymmetricAlgorithm*)(void*)&vp_algo_store[0]; }
void CryptoFactory::recycleAsymmetricAlgorithm(AsymmetricAlgorithm*) { OUT(recalgo_n)++; }
PrivateKey* AsymmetricAlgorithm::newPrivateKey() { OUT(newkey_n)++; return IN(newKeyNull) ? (PrivateKey*)0 : (PrivateKey*)(void*)&vp_key_store[0]; }
void AsymmetricAlgorithm::recyclePrivateKey(PrivateKey*) { OUT(reckey_n)++; }
// key loading: which family of key material the function asked for (1 RSA, 2 DSA, 3 DH, 4 EC, 5 ED), from which object
static CK_RV getkey(int kind, OSObject* key) { OUT(getkey_n)++; OUT(getkey_kind) = kind; OUT(getkey_obj) = (CK_ULONG)vp_obj_index(key); return IN(getKey_rv); }
CK_RV SoftHSM::getRSAPrivateKey(RSAPrivateKey*, Token*, OSObject* key) { return getkey(1, key); }
CK_RV SoftHSM::getDSAPrivateKey(DSAPrivateKey*, Token*, OSObject* key) { return getkey(2, key); }
CK_RV SoftHSM::getDHPrivateKey(DHPrivateKey*, Token*, OSObject* key) { return getkey(3, key); }
CK_RV SoftHSM::getECPrivateKey(ECPrivateKey*, Token*, OSObject* key) { return getkey(4, key); }
CK_RV SoftHSM::getEDPrivateKey(EDPrivateKey*, Token*, OSObject* key) { return getkey(5, key); }
ByteString PrivateKey::PKCS8Encode() { CK_ULONG pl = IN(pk8_len) > 8 ? 8 : IN(pk8_len); ByteString v(vp_in_pk8, pl); return v; }

extern "C" CK_RV vp_wrap(void)
{
	VP_MK_HSM(); VP_MK_MECH();
	unsigned char out[VP_WOUT]; for (int i = 0; i < VP_WOUT; i++) out[i] = 0xAA;
	CK_ULONG len = IN(buflen);
	CK_RV rv = hsm->C_WrapKey(SES(HSESSION), pMech, SES(HARG0), SES(HARG1), SES(NULL_OUT) ? (CK_BYTE_PTR)0 : &out[0], IN(lenNull) ? (CK_ULONG_PTR)0 : &len);
	OUT(len_after) = len; OUT(out_w) = IN(w) < VP_WOUT ? out[IN(w)] : 0xAA;
	return rv;
}
