/* The whole SoftHSM::C_WrapKey.  C07: the wrapping key's class and type fit the mechanism, CKA_WRAP is true, the
 * mechanism is permitted for THIS key.  C02: a key with CKA_EXTRACTABLE != true is never wrapped, a key with
 * CKA_WRAP_WITH_TRUSTED only under a trusted wrapping key - and in both cases its value is not even read.  C01: private
 * keys (either one) only in a user session.  C13: only secret and private keys are wrapped, private keys as their PKCS#8
 * encoding, private secret values after decryption, RSA mechanisms only secret keys, nothing of length zero.
 * C12: output-length protocol of the wrapped blob (size query, CKR_BUFFER_TOO_SMALL, never more than announced). */
#include "shared.h"

CK_ULONG vp_in[VP_IN_N];
unsigned char vp_in_wrapped[VP_WMAX];
unsigned char vp_in_pk8[8];
CK_ULONG vp_out[VP_OUT_N];
CK_RV vp_rv;
VP_SOFTHSM_CALLEE_CONTRACTS

#define RV __CPROVER_return_value
#define M SES(MECH)
#define W0 VP_OBJ_OF(SES(HARG0))
#define K1 VP_OBJ_OF(SES(HARG1))
#define WKEY_OK (SES(HARG0) != CK_INVALID_HANDLE && W0 < VP_NOBJ && OBJX(W0, VALID))
#define KEY_OK (SES(HARG1) != CK_INVALID_HANDLE && K1 < VP_NOBJ && OBJX(K1, VALID))
#define UL(o, a, d) (OBJU_HAS(o, a) ? OBJU(o, a) : (d))
#define WCLASS UL(W0, CLASS, CKO_VENDOR_DEFINED)
#define WTYPE UL(W0, KEY_TYPE, CKK_VENDOR_DEFINED)
#define KCLASS UL(K1, CLASS, CKO_VENDOR_DEFINED)
#define KTYPE UL(K1, KEY_TYPE, CKK_VENDOR_DEFINED)
/* which wrapping keys a mechanism accepts (PKCS#11 v2.40: AES key wrap and AES-CBC need an AES secret key, RSA PKCS#1 / OAEP an RSA public key) */
#define FITS ((M == CKM_AES_KEY_WRAP || M == CKM_AES_KEY_WRAP_PAD) ? (WCLASS == CKO_SECRET_KEY && WTYPE == CKK_AES) : \
              (M == CKM_RSA_PKCS || M == CKM_RSA_PKCS_OAEP) ? (WCLASS == CKO_PUBLIC_KEY && WTYPE == CKK_RSA) : \
              (M == CKM_AES_CBC || M == CKM_AES_CBC_PAD) ? (WTYPE == CKK_AES) : 0)
#define KIND_OF(t) ((t) == CKK_RSA ? 1 : (t) == CKK_DSA ? 2 : (t) == CKK_DH ? 3 : (t) == CKK_EC ? 4 : (t) == CKK_EC_EDWARDS ? 5 : 0)
#define WL (IN(wrapped_len) > VP_WMAX ? VP_WMAX : IN(wrapped_len))
#define OUT_ZERO (OUT(wrap_n) == 0 && OUT(getkey_n) == 0 && OUT(getalgo_n) == 0 && OUT(recalgo_n) == 0 && OUT(newkey_n) == 0 && OUT(reckey_n) == 0)
/* refused: no wrapping primitive ran, nothing was written to the caller's buffer or length */
#define REFUSED (RV != CKR_OK && OUT(wrap_n) == 0 && OUT(out_w) == 0xAA && (IN(lenNull) || OUT(len_after) == IN(buflen)) && SFX(SETOPTYPE_N) == 0 && CNT(SET) == 0)
/* ... and the key's value was neither read nor decrypted nor loaded */
#define UNTOUCHED (CNT(VALUE_READS) == 0 && CNT(DECRYPT) == 0 && OUT(getkey_n) == 0)

CK_RV vp_wrap(void)
__CPROVER_requires(VP_FRESH_GHOST && OUT_ZERO && !(TOK(SO) && TOK(USER)) && (!TOK(SO) || SES(RW)) && SES(HOBJ0) != SES(HOBJ1) && SES(OPTYPE) <= 0x10 && IN(buflen) <= VP_WOUT)
__CPROVER_ensures(OUT(wrap_n) <= 1 && (OUT(wrap_n) == 0 ==> REFUSED))
__CPROVER_ensures((!SES(INIT) || !SES(VALID) || SES(MECH_NULL) || IN(lenNull) || SES(TOKEN_NULL) || !WKEY_OK || !KEY_OK) ==> (REFUSED && UNTOUCHED))
/* C01 */
__CPROVER_ensures((WKEY_OK && OBJBV(W0, PRIVATE, 1) && !VP_SES_USER) ==> (REFUSED && UNTOUCHED))
__CPROVER_ensures((KEY_OK && OBJBV(K1, PRIVATE, 1) && !VP_SES_USER) ==> (REFUSED && UNTOUCHED))
/* C07: wrapping key class / type / usage flag / permitted mechanism */
__CPROVER_ensures((OUT(wrap_n) == 1) ==> (FITS && OBJB(W0, WRAP) == 2 && SES(MECH_PERMITTED) && SFX(MECHPERM_N) >= 1 && SFX(MECHPERM_OBJ) == W0 && SFX(MECHPERM_MECH) == M))
__CPROVER_ensures((OUT(wrap_n) == 1) ==> (OUT(wrap_obj) == W0 && OUT(wrap_mech) == M && OUT(wrap_sym) == (WCLASS == CKO_SECRET_KEY ? 1 : 0)))
/* C02 */
__CPROVER_ensures((KEY_OK && OBJB(K1, EXTRACTABLE) != 2) ==> (REFUSED && UNTOUCHED))
__CPROVER_ensures((KEY_OK && WKEY_OK && OBJB(K1, WRAP_WITH_TRUSTED) == 2 && OBJB(W0, TRUSTED) != 2) ==> (REFUSED && UNTOUCHED))
/* C13: what is wrapped */
__CPROVER_ensures((OUT(wrap_n) == 1) ==> ((KCLASS == CKO_SECRET_KEY || KCLASS == CKO_PRIVATE_KEY) && OUT(kd_len) > 0))
__CPROVER_ensures((OUT(wrap_n) == 1 && (M == CKM_RSA_PKCS || M == CKM_RSA_PKCS_OAEP)) ==> KCLASS == CKO_SECRET_KEY)
__CPROVER_ensures((OUT(wrap_n) == 1 && KCLASS == CKO_SECRET_KEY && OBJBV(K1, PRIVATE, 1)) ==> (OUT(kd_is_dec) && CNT(DECRYPT) == 1 && OUT(getkey_n) == 0))
__CPROVER_ensures((OUT(wrap_n) == 1 && KCLASS == CKO_SECRET_KEY && !OBJBV(K1, PRIVATE, 1)) ==> (CNT(DECRYPT) == 0 && OUT(getkey_n) == 0))
__CPROVER_ensures((OUT(wrap_n) == 1 && KCLASS == CKO_PRIVATE_KEY) ==> (OUT(kd_is_pk8) && OUT(getkey_n) == 1 && OUT(getkey_kind) == KIND_OF(KTYPE) && KIND_OF(KTYPE) != 0 && OUT(getkey_obj) == K1))
/* every crypto object taken is given back */
__CPROVER_ensures((IN(algoNull) || OUT(recalgo_n) == OUT(getalgo_n)) && (IN(newKeyNull) || OUT(reckey_n) == OUT(newkey_n)))
/* C12: output-length protocol */
__CPROVER_ensures((OUT(wrap_n) == 1 && IN(wrap_rv) != CKR_OK) ==> (RV == IN(wrap_rv) && OUT(out_w) == 0xAA && OUT(len_after) == IN(buflen)))
__CPROVER_ensures((OUT(wrap_n) == 1 && IN(wrap_rv) == CKR_OK) ==> (OUT(len_after) == WL))
__CPROVER_ensures((OUT(wrap_n) == 1 && IN(wrap_rv) == CKR_OK && SES(NULL_OUT)) ==> (RV == CKR_OK && OUT(out_w) == 0xAA))
__CPROVER_ensures((OUT(wrap_n) == 1 && IN(wrap_rv) == CKR_OK && !SES(NULL_OUT) && IN(buflen) < WL) ==> (RV == CKR_BUFFER_TOO_SMALL && OUT(out_w) == 0xAA))
__CPROVER_ensures((OUT(wrap_n) == 1 && IN(wrap_rv) == CKR_OK && !SES(NULL_OUT) && IN(buflen) >= WL) ==> (RV == CKR_OK && OUT(out_w) == ((IN(w) < WL) ? vp_in_wrapped[IN(w) < VP_WMAX ? IN(w) : 0] : 0xAA)))
__CPROVER_ensures(SFX(SETOPTYPE_N) == 0 && CNT(SET) == 0 && CNT(ENCRYPT) == 0)
__CPROVER_assigns(__CPROVER_object_whole(vp_out), VP_SOFTHSM_FRAME);

void vp_call_C_WrapKey(void) { vp_rv = vp_wrap(); }
void h_wrap(void)
{
  VP_HAVOC_SOFTHSM(); __CPROVER_havoc_object(vp_in); __CPROVER_havoc_object(vp_in_wrapped); __CPROVER_havoc_object(vp_in_pk8);
  vp_call_C_WrapKey();
  VP_COVER(vp_rv == CKR_OK && OUT(wrap_n) == 1 && OUT(wrap_sym) == 1 && KCLASS == CKO_SECRET_KEY && OBJBV(K1, PRIVATE, 1) && !SES(NULL_OUT) && WL == 9);
  VP_COVER(vp_rv == CKR_OK && OUT(wrap_n) == 1 && OUT(wrap_sym) == 0 && M == CKM_RSA_PKCS_OAEP);
  VP_COVER(vp_rv == CKR_OK && OUT(wrap_n) == 1 && KCLASS == CKO_PRIVATE_KEY && KTYPE == CKK_EC && M == CKM_AES_KEY_WRAP_PAD);
  VP_COVER(vp_rv == CKR_BUFFER_TOO_SMALL); VP_COVER(vp_rv == CKR_KEY_UNEXTRACTABLE); VP_COVER(vp_rv == CKR_WRAPPING_KEY_TYPE_INCONSISTENT && M == CKM_AES_KEY_WRAP_PAD);
  VP_COVER(vp_rv == CKR_KEY_NOT_WRAPPABLE && CNT(VALUE_READS) > 0); VP_COVER(vp_rv == CKR_OK && SES(NULL_OUT));
}
