/* The login state machine of SecureDataManager - the invariant every C01/C03 contract relies on ("the SO and the normal user
 * are never logged in together") and the gate of the attribute cipher (C01: private attributes are only decryptable while
 * somebody is logged in).  C03/C04: a login succeeds iff the PIN-derived key opens the blob (PBE key derived, AES-CBC
 * decryption succeeds, the clear text starts with the magic 'RJR'); a failed login leaves nobody logged in; the master
 * key is kept masked under a fresh mask.  PBE, AES and the RNG are assumed (ghost answers). */
#include "shared.h"
CK_ULONG vp_in[VP_IN_N];
unsigned char vp_in_dec[VP_DEC], vp_in_fin[VP_BLK], vp_in_enc[32], vp_in_rand[32], vp_in_masked0[32], vp_in_mask0[32];
CK_ULONG vp_out[VP_OUT_N];
#define DECLEN (IN(declen) > VP_DEC ? VP_DEC : IN(declen))
#define FINLEN (IN(finlen) > VP_BLK ? VP_BLK : IN(finlen))
#define TOTAL (DECLEN + FINLEN)
/* byte k of the decrypted key blob: the update output followed by the final block */
static unsigned char clear_at(CK_ULONG k) { return k < DECLEN ? vp_in_dec[k < VP_DEC ? k : 0] : vp_in_fin[(k - DECLEN) < VP_BLK ? (k - DECLEN) : 0]; }
#define MAGIC_OK (TOTAL >= 3 && clear_at(0) == 0x52 && clear_at(1) == 0x4A && clear_at(2) == 0x52)
#define LOGIN_OK (IN(pbe_ok) && IN(dinit_ok) && IN(dupd_ok) && IN(dfin_ok) && MAGIC_OK)
#define IS_LOGIN (IN(op) == 1 || IN(op) == 2)
#define M0LEN (IN(masked0_len) > 32 ? 32 : IN(masked0_len))
/* ---- PIN change (C04): setUserPIN (op 6) / setSOPIN (op 7) re-wrap THE SAME master key under the new PIN */
#define IS_CIPHER (IN(op) == 4 || IN(op) == 5)
#define IS_PIN (IN(op) == 6 || IN(op) == 7)
#define BLOBLEN (IN(bloblen) > VP_DEC + 16 ? VP_DEC + 16 : IN(bloblen))
#define PINLEN (IN(pinlen) > 4 ? 4 : IN(pinlen))
#define BLANK (IN(op) == 7 && BLOBLEN == 0)
#define PIN_GATE (PINLEN > 0 && (IN(op) == 6 ? (IN(so0) || IN(user0)) : (BLOBLEN == 0 || IN(so0))))
#define REACH_KEY (PIN_GATE && IN(pbe_ok) && IN(einit_ok) && IN(eupd0_ok))
#define PIN_OK (REACH_KEY && IN(eupd1_ok) && IN(efin_ok))
#define KEYLEN (BLANK ? 32 : M0LEN)
#define E0 (IN(enc0len) > VP_BLK ? VP_BLK : IN(enc0len))
#define E1 (IN(enc1len) > 32 ? 32 : IN(enc1len))
#define E2 (IN(enc2len) > VP_BLK ? VP_BLK : IN(enc2len))
/* byte w of the master key before the call (a blank manager draws a new one from the RNG) */
static CK_ULONG key0_at(CK_ULONG w) { return BLANK ? vp_in_rand[w < 32 ? w : 0] : (CK_ULONG)(vp_in_masked0[w < 32 ? w : 0] ^ vp_in_mask0[w < 32 ? w : 0]); }
/* byte w of a freshly written blob: salt (8 RNG bytes) | IV (one block of RNG bytes) | the three cipher outputs */
static CK_ULONG newblob_at(CK_ULONG w) { return w < 8 ? vp_in_rand[w] : w < 8 + VP_BLK ? vp_in_rand[w - 8] : w < 8 + VP_BLK + E0 ? vp_in_enc[(w - 8 - VP_BLK) % 32] : w < 8 + VP_BLK + E0 + E1 ? vp_in_enc[(w - 8 - VP_BLK - E0) % 32] : vp_in_enc[(w - 8 - VP_BLK - E0 - E1) % 32]; }
#define NEWLEN (8 + VP_BLK + E0 + E1 + E2)
static int out_zero(void) { for (int i = 0; i < VP_OUT_N; i++) if (vp_out[i] != 0) return 0; return 1; }

void vp_sdm(void)
__CPROVER_requires(IN(op) >= 1 && IN(op) <= 7 && out_zero() && TOTAL <= 35 + 3 && IN(inlen) <= 16)
/* ---- INVARIANT: never both, after every operation and from every state (even one that violates it) */
__CPROVER_ensures((IN(op) <= 3) ==> !(OUT(so) && OUT(user)))
__CPROVER_ensures((IN(op) >= 4) ==> (OUT(so) == (IN(so0) != 0 ? 1 : 0) && OUT(user) == (IN(user0) != 0 ? 1 : 0)))
/* ---- login: the result is "the blob opened"; exactly the requested role is logged in on success, nobody on failure */
__CPROVER_ensures(IS_LOGIN ==> (OUT(ret) == (LOGIN_OK ? 1 : 0)))
__CPROVER_ensures((IN(op) == 1) ==> (OUT(so) == OUT(ret) && OUT(user) == 0))
__CPROVER_ensures((IN(op) == 2) ==> (OUT(user) == OUT(ret) && OUT(so) == 0))
__CPROVER_ensures((IS_LOGIN && !OUT(ret)) ==> OUT(masked_len) == 0)
/* the blob is taken apart as salt (8 bytes) | IV (one block) | data; every derived key is deleted again */
__CPROVER_ensures(IS_LOGIN ==> (OUT(pbe_n) == 1 && (IN(bloblen) < 8 || OUT(pbe_saltlen) == 8)))
__CPROVER_ensures((IS_LOGIN && IN(pbe_ok)) ==> (OUT(dinit_n) == 1 && (IN(bloblen) < 8 + VP_BLK || OUT(dinit_ivlen) == VP_BLK)))
/* success: the master key (the clear text behind the magic) is in memory only masked, under a mask fresh from the RNG */
__CPROVER_ensures((IS_LOGIN && OUT(ret)) ==> (OUT(masked_len) == TOTAL - 3 && OUT(rng_n) == 1))
__CPROVER_ensures((IS_LOGIN && OUT(ret) && IN(w) < TOTAL - 3 && IN(w) < 32) ==> (OUT(unmasked_w) == clear_at(IN(w) + 3) && OUT(mask_w) == vp_in_rand[IN(w) < 32 ? IN(w) : 0]))
/* ---- logout */
__CPROVER_ensures((IN(op) == 3) ==> (!OUT(so) && !OUT(user) && OUT(masked_len) == 0))
/* ---- C01: the attribute cipher works only while somebody is logged in and a 256-bit master key is present */
__CPROVER_ensures((IS_CIPHER && ((!IN(so0) && !IN(user0)) || M0LEN != 32)) ==> (!OUT(ret) && OUT(after_gate_n) == 0 && OUT(rng_n) == 0 && OUT(masked_len) == M0LEN))
__CPROVER_ensures((IN(op) == 4 && (IN(so0) || IN(user0)) && M0LEN == 32 && IN(inlen) == 0) ==> (OUT(ret) && OUT(plain_len) == 0 && OUT(after_gate_n) == 0))
__CPROVER_ensures((IS_CIPHER && OUT(after_gate_n) > 0) ==> ((IN(so0) || IN(user0)) && M0LEN == 32))
/* ---- C04: PIN change.  Refused (nothing touched, nothing drawn, nothing derived) unless a non-empty PIN is given and the caller may
 * change it: user PIN - SO or user logged in; SO PIN - SO logged in, or a blank manager (which then draws a new master key) */
__CPROVER_ensures((IS_PIN && !PIN_GATE) ==> (!OUT(ret) && OUT(rng_n) == 0 && OUT(pbe_n) == 0 && OUT(eupd_n) == 0 && OUT(soblob_len) == BLOBLEN && OUT(userblob_len) == BLOBLEN && OUT(masked_len) == M0LEN))
__CPROVER_ensures(IS_PIN ==> (OUT(ret) == (PIN_OK ? 1 : 0)))
/* the key is derived from exactly the PIN given and a fresh 8-byte salt; CBC under a fresh one-block IV; the clear text is magic | key */
__CPROVER_ensures((IS_PIN && PIN_GATE) ==> (OUT(pbe_n) == 1 && OUT(pbe_saltlen) == 8 && OUT(pbe_pinlen) == PINLEN))
__CPROVER_ensures((IS_PIN && PIN_GATE && IN(pbe_ok)) ==> (OUT(einit_n) == 1 && OUT(einit_ivlen) == VP_BLK))
__CPROVER_ensures((IS_PIN && PIN_GATE && IN(pbe_ok) && IN(einit_ok)) ==> (OUT(eupd_n) >= 1 && OUT(eupd0_magic) == 1))
/* what is wrapped is THE master key: the one in memory before the call, byte for byte and in full length */
__CPROVER_ensures((IS_PIN && REACH_KEY) ==> (OUT(eupd_n) == 2 && OUT(eupd1_len) == KEYLEN))
__CPROVER_ensures((IS_PIN && REACH_KEY && IN(w) < KEYLEN) ==> (OUT(eupd1_w) == key0_at(IN(w))))
/* ... and that key is still the one in memory afterwards, whatever the outcome (private objects stay readable) */
__CPROVER_ensures((IS_PIN && !BLANK) ==> (OUT(masked_len) == M0LEN))
__CPROVER_ensures((IS_PIN && !BLANK && IN(w) < M0LEN) ==> (OUT(unmasked_w) == key0_at(IN(w))))
__CPROVER_ensures((IS_PIN && BLANK && PIN_GATE) ==> (OUT(masked_len) == 32 && (IN(w) >= 32 || OUT(unmasked_w) == key0_at(IN(w)))))
/* the other user's blob is never touched; on success the addressed blob is salt | IV | cipher text */
__CPROVER_ensures((IN(op) == 6) ==> (OUT(soblob_len) == BLOBLEN && (IN(w) >= BLOBLEN || OUT(soblob_w) == (IN(w) & 0xFF))))
__CPROVER_ensures((IN(op) == 7) ==> (OUT(userblob_len) == BLOBLEN && (IN(w) >= BLOBLEN || OUT(userblob_w) == (IN(w) & 0xFF))))
__CPROVER_ensures((IN(op) == 6 && OUT(ret)) ==> (OUT(userblob_len) == NEWLEN && (IN(w) >= NEWLEN || OUT(userblob_w) == newblob_at(IN(w)))))
__CPROVER_ensures((IN(op) == 7 && OUT(ret)) ==> (OUT(soblob_len) == NEWLEN && (IN(w) >= NEWLEN || OUT(soblob_w) == newblob_at(IN(w)))))
__CPROVER_assigns(__CPROVER_object_whole(vp_out));
void vp_call_sdm(void) { vp_sdm(); }
#define HAVOC __CPROVER_havoc_object(vp_in); __CPROVER_havoc_object(vp_in_enc); __CPROVER_havoc_object(vp_in_dec); __CPROVER_havoc_object(vp_in_fin); __CPROVER_havoc_object(vp_in_rand); __CPROVER_havoc_object(vp_in_masked0); __CPROVER_havoc_object(vp_in_mask0)
void h_login(void)
{
  HAVOC; IN(op) = IN(op) == 2 ? 2 : 1; vp_call_sdm();
  VP_COVER(OUT(ret) && IN(op) == 1 && IN(user0) && TOTAL == 35); VP_COVER(OUT(ret) && IN(op) == 2 && IN(so0)); VP_COVER(!OUT(ret) && IN(pbe_ok) && IN(dfin_ok) && IN(dupd_ok) && IN(dinit_ok)); VP_COVER(!OUT(ret) && !IN(pbe_ok) && IN(so0));
}
void h_gate(void)
{
  HAVOC; IN(op) = IN(op) == 3 ? 3 : IN(op) == 4 ? 4 : 5; vp_call_sdm();
  VP_COVER(IN(op) == 3 && IN(so0) && IN(user0)); VP_COVER(IN(op) == 4 && OUT(after_gate_n) == 1); VP_COVER(IN(op) == 5 && OUT(after_gate_n) == 1); VP_COVER(IN(op) == 5 && !OUT(ret) && IN(user0)); VP_COVER(IN(op) == 4 && OUT(ret) && IN(inlen) == 0);
}
void h_pin(void)
{
  HAVOC; IN(op) = IN(op) == 6 ? 6 : 7; vp_call_sdm();
  VP_COVER(IN(op) == 6 && OUT(ret) && IN(user0) && !IN(so0) && M0LEN == 32); VP_COVER(IN(op) == 7 && OUT(ret) && BLANK); VP_COVER(IN(op) == 7 && OUT(ret) && !BLANK && NEWLEN == 52);
  VP_COVER(IN(op) == 6 && !OUT(ret) && PIN_GATE && !IN(efin_ok)); VP_COVER(IN(op) == 7 && !PIN_GATE && PINLEN > 0); VP_COVER(IN(op) == 6 && !PIN_GATE && PINLEN == 0 && IN(user0));
}
