#ifndef VP_SDM_SHARED_H
#define VP_SDM_SHARED_H
#include "vp.h"
#define VP_BLK 4          /* block size the environment's AES reports (the code under contract does not depend on 16) */
#define VP_DEC 40         /* longest decrypted key blob */
enum vp_in_idx { I_op, I_so0, I_user0, I_masked0_len, I_bloblen, I_pbe_ok, I_dinit_ok, I_dupd_ok, I_dfin_ok, I_declen, I_finlen, I_w, I_inlen, I_pinlen, I_einit_ok, I_eupd0_ok, I_eupd1_ok, I_efin_ok, I_enc0len, I_enc1len, I_enc2len, VP_IN_N };
enum vp_out_idx { O_ret, O_so, O_user, O_masked_len, O_unmasked_w, O_mask_w, O_pbe_n, O_pbe_saltlen, O_dinit_n, O_dinit_ivlen, O_dupd_n, O_dupd_inlen, O_after_gate_n, O_rng_n, O_plain_len, O_delkey_n, O_pbe_pinlen, O_einit_n, O_einit_ivlen, O_eupd_n, O_eupd0_magic, O_eupd1_len, O_eupd1_w, O_efin_n, O_soblob_len, O_userblob_len, O_soblob_w, O_userblob_w, VP_OUT_N };
VP_C_BEGIN
extern CK_ULONG vp_in[VP_IN_N];
extern unsigned char vp_in_dec[VP_DEC];     /* what AES decryptUpdate yields */
extern unsigned char vp_in_fin[VP_BLK];     /* what AES decryptFinal yields */
extern unsigned char vp_in_enc[32];         /* what AES encryptUpdate / encryptFinal yield */
extern unsigned char vp_in_rand[32];        /* what the RNG yields */
extern unsigned char vp_in_masked0[32];     /* the masked key before the call */
extern unsigned char vp_in_mask0[32];       /* the mask before the call */
extern CK_ULONG vp_out[VP_OUT_N];
VP_C_END
#define IN(x) vp_in[(int)I_##x]
#define OUT(x) vp_out[(int)O_##x]
#endif
