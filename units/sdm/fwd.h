/* the tail of the cut decrypt / encrypt: defined by the environment at the end of the translation unit */
static bool vp_after_gate();
