// environment of SecureDataManager's login state machine (cbmc: included at the end of the sliced SecureDataManager.cpp):
// PBE key derivation, AES and the RNG answer ghost values; the manager itself is a typed object built through an
// environment constructor (the real initObject talks to the crypto factory)
#include "config.h"
#include "SecureDataManager.h"
#include "RFC4880.h"
#include "AESKey.h"
#include "RNG.h"
#include "shared.h"
SecureDataManager::SecureDataManager() {}
SecureDataManager::~SecureDataManager() {}
static long vp_aes_store[16], vp_rng_store[8];
static ByteString bytes_of(const unsigned char* p, CK_ULONG len, CK_ULONG cap) { ByteString v(p, len > cap ? cap : len); return v; }
bool RFC4880::PBEDeriveKey(const ByteString& pin, ByteString& salt, AESKey** ppKey)
{
	OUT(pbe_n)++; OUT(pbe_saltlen) = salt.size(); OUT(pbe_pinlen) = pin.size();
	if (!IN(pbe_ok)) return false;
	*ppKey = new AESKey(256);
	return true;
}
size_t SymmetricAlgorithm::getBlockSize() const { return VP_BLK; }
bool SymmetricAlgorithm::decryptInit(const SymmetricKey*, const SymMode::Type, const ByteString& IV, bool, size_t, const ByteString&, size_t) { OUT(dinit_n)++; OUT(dinit_ivlen) = IV.size(); return IN(dinit_ok) != 0; }
bool SymmetricAlgorithm::decryptUpdate(const ByteString& encryptedData, ByteString& data) { OUT(dupd_n)++; OUT(dupd_inlen) = encryptedData.size(); if (!IN(dupd_ok)) return false; data = bytes_of(vp_in_dec, IN(declen), VP_DEC); return true; }
bool SymmetricAlgorithm::decryptFinal(ByteString& data) { if (!IN(dfin_ok)) return false; data = bytes_of(vp_in_fin, IN(finlen), VP_BLK); return true; }
bool SymmetricAlgorithm::encryptInit(const SymmetricKey*, const SymMode::Type, const ByteString& IV, bool, size_t, const ByteString&, size_t) { OUT(einit_n)++; OUT(einit_ivlen) = IV.size(); return IN(einit_ok) != 0; }
bool SymmetricAlgorithm::encryptUpdate(const ByteString& data, ByteString& encryptedData)
{
	CK_ULONG n = OUT(eupd_n)++;
	const unsigned char* d = data.const_byte_str();
	if (n == 0)
	{
		// first call: the magic
		OUT(eupd0_magic) = (data.size() == 3 && d[0] == 0x52 && d[1] == 0x4A && d[2] == 0x52) ? 1 : 0;
		if (!IN(eupd0_ok)) return false;
		encryptedData = bytes_of(vp_in_enc, IN(enc0len), VP_BLK);
		return true;
	}
	// second call: the clear master key
	OUT(eupd1_len) = data.size(); OUT(eupd1_w) = IN(w) < data.size() ? d[IN(w)] : 0x100;
	if (!IN(eupd1_ok)) return false;
	encryptedData = bytes_of(vp_in_enc, IN(enc1len), 32);
	return true;
}
bool SymmetricAlgorithm::encryptFinal(ByteString& encryptedData) { OUT(efin_n)++; if (!IN(efin_ok)) return false; encryptedData = bytes_of(vp_in_enc, IN(enc2len), VP_BLK); return true; }
bool RNG::generateRandom(ByteString& data, const size_t len) { OUT(rng_n)++; data = bytes_of(vp_in_rand, len, 32); return true; }
static bool vp_after_gate() { OUT(after_gate_n)++; return true; }

extern "C" void vp_sdm(void)
{
	SecureDataManager m;
	m.rng = (RNG*)(void*)&vp_rng_store[0]; m.aes = (SymmetricAlgorithm*)(void*)&vp_aes_store[0]; m.dataMgrMutex = NULL;
	ByteString mask0(vp_in_mask0, 32); m.mask = &mask0;
	unsigned char rjr[3]; rjr[0] = 0x52; rjr[1] = 0x4A; rjr[2] = 0x52; m.magic = ByteString(&rjr[0], 3);
	m.soLoggedIn = IN(so0) != 0; m.userLoggedIn = IN(user0) != 0;
	m.maskedKey = bytes_of(vp_in_masked0, IN(masked0_len), 32);
	// the stored blob: salt (8) | IV (one block) | encrypted key data; only its length matters to the code under contract
	unsigned char blob[VP_DEC + 16]; for (int i = 0; i < VP_DEC + 16; i++) blob[i] = (unsigned char)i;
	ByteString b = bytes_of(&blob[0], IN(bloblen), VP_DEC + 16);
	m.soEncryptedKey = b; m.userEncryptedKey = b;
	ByteString pin = bytes_of(&blob[0], IN(op) >= 6 ? IN(pinlen) : (CK_ULONG)4, (CK_ULONG)4), in = bytes_of(&blob[0], IN(inlen), 16), out;
	switch (IN(op))
	{
		case 1: OUT(ret) = m.loginSO(pin) ? 1 : 0; break;
		case 2: OUT(ret) = m.loginUser(pin) ? 1 : 0; break;
		case 3: m.logout(); OUT(ret) = 1; break;
		case 4: OUT(ret) = m.decrypt(in, out) ? 1 : 0; OUT(plain_len) = out.size(); break;
		case 5: OUT(ret) = m.encrypt(in, out) ? 1 : 0; break;
		case 6: OUT(ret) = m.setUserPIN(pin) ? 1 : 0; break;
		case 7: OUT(ret) = m.setSOPIN(pin) ? 1 : 0; break;
	}
	OUT(so) = m.isSOLoggedIn() ? 1 : 0; OUT(user) = m.isUserLoggedIn() ? 1 : 0; OUT(masked_len) = m.maskedKey.size();
	CK_ULONG w = IN(w);
	OUT(soblob_len) = m.soEncryptedKey.size(); OUT(userblob_len) = m.userEncryptedKey.size();
	OUT(soblob_w) = w < m.soEncryptedKey.size() ? m.soEncryptedKey[w] : 0x100; OUT(userblob_w) = w < m.userEncryptedKey.size() ? m.userEncryptedKey[w] : 0x100;
	OUT(mask_w) = w < m.mask->size() ? (*m.mask)[w] : 0x100;
	OUT(unmasked_w) = (w < m.maskedKey.size() && w < m.mask->size()) ? (CK_ULONG)(m.maskedKey[w] ^ (*m.mask)[w]) : 0x100;
}
