// environment of SecureDataManager's login state machine (cbmc: included at the end of the sliced SecureDataManager.cpp):
// PBE key derivation, AES and the RNG answer ghost values; the manager itself is a typed object built through an
// environment constructor (the real initObject talks to the crypto factory)
#include "config.h"
#include "SecureDataManager.h"
#include "RFC4880.h"
#include "AESKey.h"
#include "RNG.h"
#include "shared.h"
SecureDataManager::SecureDataManager() {}
SecureDataManager::~SecureDataManager() {}
static long vp_aes_store[16], vp_rng_store[8];
static ByteString bytes_of(const unsigned char* p, CK_ULONG len, CK_ULONG cap) { ByteString v(p, len > cap ? cap : len); return v; }
bool RFC4880::PBEDeriveKey(const ByteString&, ByteString& salt, AESKey** ppKey)
{
	OUT(pbe_n)++; OUT(pbe_saltlen) = salt.size();
	if (!IN(pbe_ok)) return false;
	*ppKey = new AESKey(256);
	return true;
}
size_t SymmetricAlgorithm::getBlockSize() const { return VP_BLK; }
bool SymmetricAlgorithm::decryptInit(const SymmetricKey*, const SymMode::Type, const ByteString& IV, bool, size_t, const ByteString&, size_t) { OUT(dinit_n)++; OUT(dinit_ivlen) = IV.size(); return IN(dinit_ok) != 0; }
bool SymmetricAlgorithm::decryptUpdate(const ByteString& encryptedData, ByteString& data) { OUT(dupd_n)++; OUT(dupd_inlen) = encryptedData.size(); if (!IN(dupd_ok)) return false; data = bytes_of(vp_in_dec, IN(declen), VP_DEC); return true; }
bool SymmetricAlgorithm::decryptFinal(ByteString& data) { if (!IN(dfin_ok)) return false; data = bytes_of(vp_in_fin, IN(finlen), VP_BLK); return true; }
bool RNG::generateRandom(ByteString& data, const size_t len) { OUT(rng_n)++; data = bytes_of(vp_in_rand, len, 32); return true; }
static bool vp_after_gate() { OUT(after_gate_n)++; return true; }

extern "C" void vp_sdm(void)
{
	SecureDataManager m;
	m.rng = (RNG*)(void*)&vp_rng_store[0]; m.aes = (SymmetricAlgorithm*)(void*)&vp_aes_store[0]; m.dataMgrMutex = NULL;
	ByteString mask0(vp_in_mask0, 32); m.mask = &mask0;
	unsigned char rjr[3]; rjr[0] = 0x52; rjr[1] = 0x4A; rjr[2] = 0x52; m.magic = ByteString(&rjr[0], 3);
	m.soLoggedIn = IN(so0) != 0; m.userLoggedIn = IN(user0) != 0;
	m.maskedKey = bytes_of(vp_in_masked0, IN(masked0_len), 32);
	// the stored blob: salt (8) | IV (one block) | encrypted key data; only its length matters to the code under contract
	unsigned char blob[VP_DEC + 16]; for (int i = 0; i < VP_DEC + 16; i++) blob[i] = (unsigned char)i;
	ByteString b = bytes_of(&blob[0], IN(bloblen), VP_DEC + 16);
	m.soEncryptedKey = b; m.userEncryptedKey = b;
	ByteString pin = bytes_of(&blob[0], 4, 4), in = bytes_of(&blob[0], IN(inlen), 16), out;
	switch (IN(op))
	{
		case 1: OUT(ret) = m.loginSO(pin) ? 1 : 0; break;
		case 2: OUT(ret) = m.loginUser(pin) ? 1 : 0; break;
		case 3: m.logout(); OUT(ret) = 1; break;
		case 4: OUT(ret) = m.decrypt(in, out) ? 1 : 0; OUT(plain_len) = out.size(); break;
		case 5: OUT(ret) = m.encrypt(in, out) ? 1 : 0; break;
	}
	OUT(so) = m.isSOLoggedIn() ? 1 : 0; OUT(user) = m.isUserLoggedIn() ? 1 : 0; OUT(masked_len) = m.maskedKey.size();
	CK_ULONG w = IN(w);
	OUT(mask_w) = w < m.mask->size() ? (*m.mask)[w] : 0x100;
	OUT(unmasked_w) = (w < m.maskedKey.size() && w < m.mask->size()) ? (CK_ULONG)(m.maskedKey[w] ^ (*m.mask)[w]) : 0x100;
}
