#include "config.h"
#include "P11Attributes.h"
#include "shared.h"

extern "C" CK_RV vp_flag_updateAttr(void)
{
	long tok_store[(sizeof(Token) + 7) / 8]; Token* tok = (Token*)(void*)&tok_store[0];
	unsigned char v[1];
	v[0] = (unsigned char)IN(val);
	bool isPrivate = IN(isPrivate) != 0;
	int op = (int)IN(op);
	CK_ULONG len = sizeof(CK_BBOOL);     // guaranteed by P11Attribute::update for size-1 attributes
#define X_CASE(i, c, t, g) case i: { c a(vp_obj(0)); return a.updateAttr(tok, isPrivate, (CK_VOID_PTR)&v[0], len, op); }
	switch (IN(cls))
	{
		VP_FLAG_CLASSES(X_CASE)
	}
	return CKR_GENERAL_ERROR;
}
