#ifndef VP_P11FLAGS_SHARED_H
#define VP_P11FLAGS_SHARED_H
#include "vp.h"
#include "osobject.h"
#include "classes.h"
enum vp_in_idx { I_cls, I_isPrivate, I_val, I_op, VP_IN_N };
enum vp_out_idx { O_unused, VP_OUT_N };
VP_C_BEGIN
extern CK_ULONG vp_in[VP_IN_N];
VP_C_END
#define IN(x) vp_in[I_##x]
#endif
