/* The boolean P11Attr*::updateAttr overrides: one-way protection flags (C02), read-only history attributes,
 * CKA_TRUSTED/CKA_COPYABLE rules and faithful storage of the policy and usage flags (C08, C07).
 * Effects are read off the environment's setAttribute log. */
#include "shared.h"
#include "k_p11.h"

CK_ULONG vp_in[VP_IN_N];
CK_RV vp_rv;

#define X_TYPE(i, c, t, g) (IN(cls) == (i)) ? (t) :
#define X_GROUP(i, c, t, g) (IN(cls) == (i)) ? (g) :
#define OWN_TYPE (VP_FLAG_CLASSES(X_TYPE) 0UL)
#define GROUP (VP_FLAG_CLASSES(X_GROUP) 99)

#define SETCOPY (IN(op) == VP_OP_SET || IN(op) == VP_OP_COPY)
#define RV __CPROVER_return_value
#define NOTHING_STORED (CNT(SET) == 0 && CNT(DELETE) == 0)
#define TRUTH (IN(val) != 0)
/* i-th log record is setAttribute(type, boolean v) on object 0 */
#define LOG_IS(i, type, v) (CNT(LOG) > (i) && LOGF(i, KIND) == E_SET_BOOL && LOGF(i, OBJ) == 0 && LOGF(i, TYPE) == (type) && LOGF(i, VAL) == (v))

CK_RV vp_flag_updateAttr(void)
__CPROVER_requires(IN(cls) < VP_NCLASSES && IN(op) <= 6 && IN(val) <= 255)
__CPROVER_requires(CNT(SET) == 0 && CNT(DELETE) == 0 && CNT(LOG) == 0)
/* C02 one-way flags: once CKA_SENSITIVE is true / CKA_EXTRACTABLE is false / CKA_WRAP_WITH_TRUSTED is true, neither
 * C_SetAttributeValue nor C_CopyObject can change it - whatever byte value the template carries */
__CPROVER_ensures((GROUP == G_SENSITIVE && SETCOPY && OBJB(0, SENSITIVE) == 2) ==> (RV != CKR_OK && NOTHING_STORED))
__CPROVER_ensures((GROUP == G_EXTRACTABLE && SETCOPY && OBJB(0, EXTRACTABLE) == 1) ==> (RV != CKR_OK && NOTHING_STORED))
__CPROVER_ensures((GROUP == G_WWT && SETCOPY && OBJB(0, WRAP_WITH_TRUSTED) == 2) ==> (RV != CKR_OK && NOTHING_STORED))
/* C08 history attributes are never accepted from a caller */
__CPROVER_ensures((GROUP == G_READONLY) ==> (RV != CKR_OK && NOTHING_STORED))
/* C08 CKA_TRUSTED can be set true only by the SO */
__CPROVER_ensures((GROUP == G_TRUSTED && TRUTH && !TOK(SO)) ==> (RV != CKR_OK && NOTHING_STORED))
/* C08 CKA_COPYABLE cannot go from false back to true */
__CPROVER_ensures((GROUP == G_COPYABLE && TRUTH && OBJB(0, COPYABLE) == 1) ==> (RV != CKR_OK && NOTHING_STORED))
/* whenever a value is accepted and stored, the first record is the attribute itself with the supplied truth value */
__CPROVER_ensures((RV == CKR_OK && CNT(SET) > 0) ==> LOG_IS(0, OWN_TYPE, TRUTH ? 1 : 0))
/* plain flags (policy and usage flags) are always stored, exactly once */
__CPROVER_ensures((GROUP == G_PLAIN) ==> (RV == CKR_OK && CNT(SET) == 1))
/* the protection flags, when accepted, are stored */
__CPROVER_ensures(((GROUP == G_SENSITIVE || GROUP == G_EXTRACTABLE || GROUP == G_WWT) && RV == CKR_OK) ==> (CNT(SET) >= 1))
/* C08 history truthfulness: making a key non-sensitive clears ALWAYS_SENSITIVE, making it extractable clears
 * NEVER_EXTRACTABLE, generating/deriving it sensitive sets ALWAYS_SENSITIVE */
__CPROVER_ensures((GROUP == G_SENSITIVE && RV == CKR_OK && !TRUTH) ==> LOG_IS(1, CKA_ALWAYS_SENSITIVE, 0))
__CPROVER_ensures((GROUP == G_EXTRACTABLE && RV == CKR_OK && TRUTH) ==> LOG_IS(1, CKA_NEVER_EXTRACTABLE, 0))
__CPROVER_ensures((GROUP == G_SENSITIVE && RV == CKR_OK && TRUTH && (IN(op) == VP_OP_GENERATE || IN(op) == VP_OP_DERIVE)) ==> LOG_IS(1, CKA_ALWAYS_SENSITIVE, 1))
/* nothing but the attribute itself and its history companion is ever written */
__CPROVER_ensures(CNT(SET) <= 2 && CNT(DELETE) == 0)
__CPROVER_ensures((CNT(SET) == 2) ==> (LOGF(1, KIND) == E_SET_BOOL && (LOGF(1, TYPE) == CKA_ALWAYS_SENSITIVE || LOGF(1, TYPE) == CKA_NEVER_EXTRACTABLE)))
__CPROVER_assigns(VP_ENV_FRAME);

void vp_call_updateAttr_flags(void) { vp_rv = vp_flag_updateAttr(); }

void h_flags(void)
{
  __CPROVER_havoc_object(vp_in); VP_HAVOC_OBJECTS();
  vp_call_updateAttr_flags();
  VP_COVER(vp_rv == CKR_OK && GROUP == G_SENSITIVE && IN(op) == VP_OP_SET);
  VP_COVER(vp_rv == CKR_OK && GROUP == G_EXTRACTABLE && IN(op) == VP_OP_COPY);
  VP_COVER(vp_rv == CKR_OK && GROUP == G_WWT);
  VP_COVER(vp_rv == CKR_OK && GROUP == G_TRUSTED && IN(val) != 0);
  VP_COVER(vp_rv == CKR_OK && GROUP == G_COPYABLE && IN(val) != 0);
  VP_COVER(vp_rv == CKR_ATTRIBUTE_READ_ONLY && GROUP == G_READONLY);
  VP_COVER(vp_rv == CKR_OK && IN(cls) == 12);
  VP_COVER(vp_rv == CKR_OK && GROUP == G_ALWAYSAUTH && IN(val) != 0);
}
