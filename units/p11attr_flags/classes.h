/* the boolean-valued P11Attr* classes of P11Attributes.cpp under contract in this unit:
 * X(index, class, attribute type, group)   group: PLAIN stores the supplied boolean; the others have rules */
#define VP_FLAG_CLASSES(X) \
  X(0,  P11AttrToken,              CKA_TOKEN,               G_PLAIN) \
  X(1,  P11AttrPrivate,            CKA_PRIVATE,             G_PLAIN) \
  X(2,  P11AttrModifiable,         CKA_MODIFIABLE,          G_PLAIN) \
  X(3,  P11AttrDestroyable,        CKA_DESTROYABLE,         G_PLAIN) \
  X(4,  P11AttrDerive,             CKA_DERIVE,              G_PLAIN) \
  X(5,  P11AttrEncrypt,            CKA_ENCRYPT,             G_PLAIN) \
  X(6,  P11AttrVerify,             CKA_VERIFY,              G_PLAIN) \
  X(7,  P11AttrVerifyRecover,      CKA_VERIFY_RECOVER,      G_PLAIN) \
  X(8,  P11AttrWrap,               CKA_WRAP,                G_PLAIN) \
  X(9,  P11AttrDecrypt,            CKA_DECRYPT,             G_PLAIN) \
  X(10, P11AttrSign,               CKA_SIGN,                G_PLAIN) \
  X(11, P11AttrSignRecover,        CKA_SIGN_RECOVER,        G_PLAIN) \
  X(12, P11AttrUnwrap,             CKA_UNWRAP,              G_PLAIN) \
  X(13, P11AttrSensitive,          CKA_SENSITIVE,           G_SENSITIVE) \
  X(14, P11AttrExtractable,        CKA_EXTRACTABLE,         G_EXTRACTABLE) \
  X(15, P11AttrWrapWithTrusted,    CKA_WRAP_WITH_TRUSTED,   G_WWT) \
  X(16, P11AttrCopyable,           CKA_COPYABLE,            G_COPYABLE) \
  X(17, P11AttrTrusted,            CKA_TRUSTED,             G_TRUSTED) \
  X(18, P11AttrAlwaysAuthenticate, CKA_ALWAYS_AUTHENTICATE, G_ALWAYSAUTH) \
  X(19, P11AttrLocal,              CKA_LOCAL,               G_READONLY) \
  X(20, P11AttrKeyGenMechanism,    CKA_KEY_GEN_MECHANISM,   G_READONLY) \
  X(21, P11AttrAlwaysSensitive,    CKA_ALWAYS_SENSITIVE,    G_READONLY) \
  X(22, P11AttrNeverExtractable,   CKA_NEVER_EXTRACTABLE,   G_READONLY)
#define VP_NCLASSES 23
enum vp_group { G_PLAIN, G_SENSITIVE, G_EXTRACTABLE, G_WWT, G_COPYABLE, G_TRUSTED, G_ALWAYSAUTH, G_READONLY };
