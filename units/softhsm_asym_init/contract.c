/* SoftHSM::AsymSignInit / AsymVerifyInit, whole functions.  C07: the operation starts only if the key's class and type
 * fit the mechanism (RSA mechanisms <-> CKK_RSA, DSA <-> CKK_DSA, ECDSA <-> CKK_EC, EdDSA <-> CKK_EC_EDWARDS; private key
 * for signing, public key for verifying), the usage flag is true and the mechanism permitted; a private key with
 * CKA_ALWAYS_AUTHENTICATE arms re-authentication whenever signing starts.  C17: key material is only ever loaded as
 * the family the key really is (loading an EC key as a DSA key made the following C_Sign crash in OpenSSL).
 * C12: any failure leaves the session without operation. */
#include "shared.h"
CK_ULONG vp_in[VP_IN_N];
unsigned char vp_in_pss[24];
CK_ULONG vp_out[VP_OUT_N];
CK_RV vp_rv;
VP_SOFTHSM_CALLEE_CONTRACTS

#define RV __CPROVER_return_value
#define K0 VP_OBJ_OF(SES(HARG0))
#define M SES(MECH)
/* mechanism families (PKCS#11 v2.40 mechanism tables) */
#define M_RSA (M == CKM_RSA_PKCS || M == CKM_RSA_X_509 || M == CKM_MD5_RSA_PKCS || M == CKM_SHA1_RSA_PKCS || M == CKM_SHA224_RSA_PKCS || M == CKM_SHA256_RSA_PKCS || \
               M == CKM_SHA384_RSA_PKCS || M == CKM_SHA512_RSA_PKCS || M == CKM_RSA_PKCS_PSS || M == CKM_SHA1_RSA_PKCS_PSS || M == CKM_SHA224_RSA_PKCS_PSS || \
               M == CKM_SHA256_RSA_PKCS_PSS || M == CKM_SHA384_RSA_PKCS_PSS || M == CKM_SHA512_RSA_PKCS_PSS)
#define M_DSA (M == CKM_DSA || M == CKM_DSA_SHA1 || M == CKM_DSA_SHA224 || M == CKM_DSA_SHA256 || M == CKM_DSA_SHA384 || M == CKM_DSA_SHA512)
#define M_EC (M == CKM_ECDSA)
#define M_ED (M == CKM_EDDSA)
#define KT (OBJU_HAS(K0, KEY_TYPE) ? OBJU(K0, KEY_TYPE) : CKK_VENDOR_DEFINED)
#define CLS (OBJU_HAS(K0, CLASS) ? OBJU(K0, CLASS) : CKO_VENDOR_DEFINED)
#define FITS ((M_RSA && KT == CKK_RSA) || (M_DSA && KT == CKK_DSA) || (M_EC && KT == CKK_EC) || (M_ED && KT == CKK_EC_EDWARDS))
#define FAMILY_OF_KT (KT == CKK_RSA ? 1UL : KT == CKK_DSA ? 2UL : KT == CKK_EC ? 3UL : KT == CKK_EC_EDWARDS ? 4UL : 0UL)
#define STARTED (SFX(SETOPTYPE_N) > 0)
#define NOT_STARTED (SFX(SETOPTYPE_N) == 0 && SFX(SESSION_SET_N) == 0 && SFX(SETREAUTH_N) == 0)

#define K_ASYM(OPCODE, FLAG, CLASS) \
  __CPROVER_requires(VP_FRESH_GHOST && !(TOK(SO) && TOK(USER)) && (!TOK(SO) || SES(RW)) && SES(HOBJ0) != SES(HOBJ1) && SES(OPTYPE) <= 0x10 && SES(HARG0) == SES(HOBJ0)) \
  __CPROVER_requires(OUT(getalgo_n) == 0 && OUT(getkey_n) == 0 && OUT(init_n) == 0 && OUT(set_n) == 0) \
  /* C07: success <=> everything fits */ \
  __CPROVER_ensures((RV == CKR_OK) ==> (STARTED && SFX(SETOPTYPE_LAST) == (OPCODE) && OBJB(0, FLAG) == 2 && SES(MECH_PERMITTED) && FITS && CLS == (CLASS))) \
  /* C17: key material is loaded as the family of the KEY, never as the family of a foreign mechanism */ \
  __CPROVER_ensures((OUT(getkey_n) > 0) ==> (OUT(getkey_n) == 1 && OUT(getkey_kind) == FAMILY_OF_KT && FITS && CLS == (CLASS))) \
  /* C12 / C09: a failing call starts nothing */ \
  __CPROVER_ensures((RV != CKR_OK) ==> NOT_STARTED) \
  __CPROVER_ensures((SES(OPTYPE) != 0 && SES(INIT) && SES(VALID) && !SES(MECH_NULL) && !SES(TOKEN_NULL)) ==> (RV == CKR_OPERATION_ACTIVE)) \
  /* C01 */ \
  __CPROVER_ensures((OBJB(0, PRIVATE) == 2 && !VP_SES_USER) ==> (RV != CKR_OK && OUT(getkey_n) == 0)) \
  __CPROVER_ensures(SFX(SETOPTYPE_N) <= 1 && CNT(SET) == 0) \
  __CPROVER_assigns(__CPROVER_object_whole(vp_out), VP_SOFTHSM_FRAME)

CK_RV vp_sign(void)
K_ASYM(5, SIGN, CKO_PRIVATE_KEY)
/* C07: CKA_ALWAYS_AUTHENTICATE arms re-authentication for every mechanism, single-part ones included */
__CPROVER_ensures((RV == CKR_OK && OBJB(0, ALWAYS_AUTHENTICATE) == 2) ==> (SFX(SETREAUTH_N) == 1 && SFX(SETREAUTH_LAST) == 1));

CK_RV vp_verify(void)
K_ASYM(6, VERIFY, CKO_PUBLIC_KEY);

#define HAV() do { VP_HAVOC_SOFTHSM(); __CPROVER_havoc_object(vp_in); __CPROVER_havoc_object(vp_in_pss); } while (0)
void vp_call_AsymSignInit(void) { vp_rv = vp_sign(); }
void vp_call_AsymVerifyInit(void) { vp_rv = vp_verify(); }
void h_sign(void) { HAV(); vp_call_AsymSignInit(); VP_COVER(vp_rv == CKR_OK && M == CKM_RSA_PKCS); VP_COVER(vp_rv == CKR_OK && M == CKM_SHA256_RSA_PKCS_PSS); VP_COVER(vp_rv == CKR_OK && M == CKM_ECDSA);
  VP_COVER(vp_rv == CKR_OK && M == CKM_EDDSA && OBJB(0, ALWAYS_AUTHENTICATE) == 2); VP_COVER(vp_rv == CKR_OK && M == CKM_DSA_SHA1); VP_COVER(vp_rv == CKR_KEY_FUNCTION_NOT_PERMITTED); }
void h_verify(void) { HAV(); vp_call_AsymVerifyInit(); VP_COVER(vp_rv == CKR_OK && M == CKM_RSA_PKCS); VP_COVER(vp_rv == CKR_OK && M == CKM_ECDSA); VP_COVER(vp_rv == CKR_OK && M == CKM_DSA); VP_COVER(vp_rv == CKR_MECHANISM_INVALID); }

/* ---- AsymEncryptInit / AsymDecryptInit, whole functions: only the three RSA encryption mechanisms, only CKK_RSA keys; the
 * session records the mechanism named; single-part only; decryption with an ALWAYS_AUTHENTICATE key arms re-authentication.
 * (Key CLASS is not part of these clauses: neither function tests it, and no object of the wrong class can carry the usage
 * flag - P11 public key objects have no CKA_DECRYPT, private key objects no CKA_ENCRYPT.) */
#define M_RSA_CRYPT (M == CKM_RSA_PKCS || M == CKM_RSA_X_509 || M == CKM_RSA_PKCS_OAEP)
/* AsymMech: RSA 1, RSA_PKCS 3, RSA_PKCS_OAEP 4 */
#define MECH_OF (M == CKM_RSA_PKCS ? 3 : M == CKM_RSA_X_509 ? 1 : 4)
#define K_ASYM_CRYPT(OPCODE, FLAG) \
  __CPROVER_requires(VP_FRESH_GHOST && !(TOK(SO) && TOK(USER)) && (!TOK(SO) || SES(RW)) && SES(HOBJ0) != SES(HOBJ1) && SES(OPTYPE) <= 0x10 && SES(HARG0) == SES(HOBJ0)) \
  __CPROVER_requires(OUT(getalgo_n) == 0 && OUT(getkey_n) == 0 && OUT(init_n) == 0 && OUT(set_n) == 0 && OUT(set_mech) == 0) \
  __CPROVER_ensures((RV == CKR_OK) ==> (STARTED && SFX(SETOPTYPE_LAST) == (OPCODE) && OBJB(0, FLAG) == 2 && SES(MECH_PERMITTED) && M_RSA_CRYPT && KT == CKK_RSA && \
                                       OUT(set_mech) == MECH_OF && OUT(set_single) && !OUT(set_multi) && OUT(getalgo_kind) == 1 /* AsymAlgo::RSA */)) \
  __CPROVER_ensures((OUT(getkey_n) > 0) ==> (OUT(getkey_n) == 1 && OUT(getkey_kind) == 1 && KT == CKK_RSA && M_RSA_CRYPT)) \
  __CPROVER_ensures((RV != CKR_OK) ==> NOT_STARTED) \
  __CPROVER_ensures((SES(OPTYPE) != 0 && SES(INIT) && SES(VALID) && !SES(MECH_NULL) && !SES(TOKEN_NULL)) ==> (RV == CKR_OPERATION_ACTIVE)) \
  __CPROVER_ensures((OBJB(0, PRIVATE) == 2 && !VP_SES_USER) ==> (RV != CKR_OK && OUT(getkey_n) == 0)) \
  __CPROVER_ensures(SFX(SETOPTYPE_N) <= 1 && CNT(SET) == 0) \
  __CPROVER_assigns(__CPROVER_object_whole(vp_out), VP_SOFTHSM_FRAME)
CK_RV vp_encinit(void)
K_ASYM_CRYPT(2, ENCRYPT)
/* OAEP parameters are checked by MechParamCheckRSAPKCSOAEP before anything is loaded */
__CPROVER_ensures((M == CKM_RSA_PKCS_OAEP && SES(OAEP_RV) != CKR_OK) ==> (RV != CKR_OK && OUT(getkey_n) == 0));
CK_RV vp_decinit(void)
K_ASYM_CRYPT(3, DECRYPT)
/* OAEP: only SHA-1 / MGF1-SHA1 parameters of the full parameter size */
__CPROVER_ensures((RV == CKR_OK && M == CKM_RSA_PKCS_OAEP) ==> (!SES(MECH_PARAM_NULL) && SES(MECH_PARAM_LEN) == sizeof(CK_RSA_PKCS_OAEP_PARAMS)))
__CPROVER_ensures((RV == CKR_OK && OBJB(0, ALWAYS_AUTHENTICATE) == 2) ==> (SFX(SETREAUTH_N) == 1 && SFX(SETREAUTH_LAST) == 1));
void vp_call_AsymEncryptInit(void) { vp_rv = vp_encinit(); }
void vp_call_AsymDecryptInit(void) { vp_rv = vp_decinit(); }
void h_encinit(void) { HAV(); vp_call_AsymEncryptInit(); VP_COVER(vp_rv == CKR_OK && M == CKM_RSA_PKCS_OAEP); VP_COVER(vp_rv == CKR_OK && M == CKM_RSA_X_509); VP_COVER(vp_rv == CKR_KEY_TYPE_INCONSISTENT); VP_COVER(vp_rv == CKR_GENERAL_ERROR); }
void h_decinit(void) { HAV(); vp_call_AsymDecryptInit(); VP_COVER(vp_rv == CKR_OK && M == CKM_RSA_PKCS_OAEP); VP_COVER(vp_rv == CKR_OK && M == CKM_RSA_PKCS && OBJB(0, ALWAYS_AUTHENTICATE) == 2); VP_COVER(vp_rv == CKR_KEY_TYPE_INCONSISTENT); VP_COVER(vp_rv == CKR_ARGUMENTS_BAD); }
