#ifndef VP_ASYM_SHARED_H
#define VP_ASYM_SHARED_H
#include "softhsm_env.h"
enum vp_in_idx { I_algoNull, I_newKeyNull, I_getKey_rv, I_init_ok, VP_IN_N };
enum vp_out_idx { O_getalgo_n, O_getalgo_kind, O_getkey_n, O_getkey_kind, O_init_n, O_set_optype, O_set_n, O_set_multi, O_set_single, O_set_mech, VP_OUT_N };
VP_C_BEGIN
extern CK_ULONG vp_in[VP_IN_N];
extern unsigned char vp_in_pss[24];
extern CK_ULONG vp_out[VP_OUT_N];
VP_C_END
#define IN(x) vp_in[(int)I_##x]
#define OUT(x) vp_out[(int)O_##x]
#endif
