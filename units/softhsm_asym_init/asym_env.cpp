// environment of AsymSignInit / AsymVerifyInit: crypto factory, key loading (ghost answers), session setters (recorded)
#include "config.h"
#include "SoftHSM.h"
#include "CryptoFactory.h"
#include "shared.h"

static long vp_cf_store[8], vp_algo_store[16], vp_key_store[64];
CryptoFactory* CryptoFactory::i() { return (CryptoFactory*)(void*)&vp_cf_store[0]; }
AsymmetricAlgorithm* CryptoFactory::getAsymmetricAlgorithm(AsymAlgo::Type algorithm)
{
	OUT(getalgo_n)++; OUT(getalgo_kind) = (CK_ULONG)algorithm;
	return IN(algoNull) ? (AsymmetricAlgorithm*)0 : (AsymmetricAlgorithm*)(void*)&vp_algo_store[0];
}
void CryptoFactory::recycleAsymmetricAlgorithm(AsymmetricAlgorithm*) {}
PrivateKey* AsymmetricAlgorithm::newPrivateKey() { return IN(newKeyNull) ? (PrivateKey*)0 : (PrivateKey*)(void*)&vp_key_store[0]; }
PublicKey* AsymmetricAlgorithm::newPublicKey() { return IN(newKeyNull) ? (PublicKey*)0 : (PublicKey*)(void*)&vp_key_store[0]; }
void AsymmetricAlgorithm::recyclePrivateKey(PrivateKey*) {}
void AsymmetricAlgorithm::recyclePublicKey(PublicKey*) {}
bool AsymmetricAlgorithm::signInit(PrivateKey*, const AsymMech::Type, const void*, const size_t) { OUT(init_n)++; return IN(init_ok) != 0; }
bool AsymmetricAlgorithm::verifyInit(PublicKey*, const AsymMech::Type, const void*, const size_t) { OUT(init_n)++; return IN(init_ok) != 0; }
// key loading: which family of key material the function asked for (1 RSA, 2 DSA, 3 EC, 4 ED)
static CK_RV getkey(int kind) { OUT(getkey_n)++; OUT(getkey_kind) = kind; return IN(getKey_rv); }
CK_RV SoftHSM::getRSAPrivateKey(RSAPrivateKey*, Token*, OSObject*) { return getkey(1); }
CK_RV SoftHSM::getRSAPublicKey(RSAPublicKey*, Token*, OSObject*) { return getkey(1); }
CK_RV SoftHSM::getDSAPrivateKey(DSAPrivateKey*, Token*, OSObject*) { return getkey(2); }
CK_RV SoftHSM::getDSAPublicKey(DSAPublicKey*, Token*, OSObject*) { return getkey(2); }
CK_RV SoftHSM::getECPrivateKey(ECPrivateKey*, Token*, OSObject*) { return getkey(3); }
CK_RV SoftHSM::getECPublicKey(ECPublicKey*, Token*, OSObject*) { return getkey(3); }
CK_RV SoftHSM::getEDPrivateKey(EDPrivateKey*, Token*, OSObject*) { return getkey(4); }
CK_RV SoftHSM::getEDPublicKey(EDPublicKey*, Token*, OSObject*) { return getkey(4); }
// session setters beyond setOpType / setReAuthentication (env/softhsm_env.cpp)
void Session::setAsymmetricCryptoOp(AsymmetricAlgorithm*) { OUT(set_n)++; SFX(SESSION_SET_N)++; }
void Session::setMechanism(AsymMech::Type m) { OUT(set_mech) = (CK_ULONG)m; SFX(SESSION_SET_N)++; }
void Session::setParameters(void*, size_t) { SFX(SESSION_SET_N)++; }
void Session::setAllowMultiPartOp(bool v) { OUT(set_multi) = v; SFX(SESSION_SET_N)++; }
void Session::setAllowSinglePartOp(bool v) { OUT(set_single) = v; SFX(SESSION_SET_N)++; }
void Session::setPrivateKey(PrivateKey*) { SFX(SESSION_SET_N)++; }
void Session::setPublicKey(PublicKey*) { SFX(SESSION_SET_N)++; }

#define MK VP_MK_HSM(); CK_MECHANISM mech; unsigned char mp[40]; memset(&mp[0], 0, 40); for (int i = 0; i < 24; i++) mp[i] = vp_in_pss[i]; mech.mechanism = SES(MECH); \
	mech.pParameter = SES(MECH_PARAM_NULL) ? NULL_PTR : (CK_VOID_PTR)&mp[0]; mech.ulParameterLen = SES(MECH_PARAM_LEN)
extern "C" CK_RV vp_sign(void) { MK; return hsm->AsymSignInit(SES(HSESSION), SES(MECH_NULL) ? (CK_MECHANISM_PTR)0 : &mech, SES(HARG0)); }
extern "C" CK_RV vp_verify(void) { MK; return hsm->AsymVerifyInit(SES(HSESSION), SES(MECH_NULL) ? (CK_MECHANISM_PTR)0 : &mech, SES(HARG0)); }
extern "C" CK_RV vp_encinit(void) { MK; return hsm->AsymEncryptInit(SES(HSESSION), SES(MECH_NULL) ? (CK_MECHANISM_PTR)0 : &mech, SES(HARG0)); }
extern "C" CK_RV vp_decinit(void) { MK; return hsm->AsymDecryptInit(SES(HSESSION), SES(MECH_NULL) ? (CK_MECHANISM_PTR)0 : &mech, SES(HARG0)); }
