#ifndef VP_P11UPD_SHARED_H
#define VP_P11UPD_SHARED_H
#include "vp.h"
#include "osobject.h"
enum vp_in_idx { I_checks, I_size, I_isPrivate, I_nullValue, I_len, I_op, I_updateAttr_rv, VP_IN_N };
enum vp_out_idx { O_n_updateAttr, O_ua_len, O_ua_op, O_ua_null, VP_OUT_N };
VP_C_BEGIN
extern CK_ULONG vp_in[VP_IN_N];
extern CK_ULONG vp_out[VP_OUT_N];
CK_RV vpi_updateAttr(void);
VP_C_END
#define IN(x) vp_in[I_##x]
#define OUT(x) vp_out[O_##x]
#endif
