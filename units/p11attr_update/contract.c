/* P11Attribute::update - the generic rule engine of the attribute policy (C08; carries the one-way and
 * read-only guarantees C02 relies on).  Oracle: property C08 / PKCS#11 v2.40 table 10 footnotes. */
#include "shared.h"
#include "k_p11.h"

CK_ULONG vp_in[VP_IN_N];
CK_ULONG vp_out[VP_OUT_N];
CK_RV vp_rv;

/* interface contract of the virtual updateAttr as update() sees it: any return code, no effect on the
 * ghost state visible here (the effects of each override are the subject of its own unit) */
CK_RV vpi_updateAttr(void)
__CPROVER_ensures(__CPROVER_return_value == IN(updateAttr_rv))
__CPROVER_assigns()
{ return IN(updateAttr_rv); }

#define CK(n) ((IN(checks) & VP_##n) == VP_##n)
#define REFUSED (__CPROVER_return_value != CKR_OK && OUT(n_updateAttr) == 0)

CK_RV vp_update(void)
__CPROVER_requires(IN(op) <= 0x7fffffffUL) /* op is an int in the real signature */
__CPROVER_requires(OUT(n_updateAttr) == 0 && CNT(SET) == 0 && CNT(DELETE) == 0 && CNT(LOG) == 0)
/* 1. attributes that are not marked modifiable (ck8) / settable-once (ck11) are read-only for C_SetAttributeValue */
__CPROVER_ensures((IN(op) == VP_OP_SET && !CK(ck8) && !CK(ck11)) ==> REFUSED)
/* 2. ... and for C_CopyObject unless marked copy-changeable (ck17) */
__CPROVER_ensures((IN(op) == VP_OP_COPY && !CK(ck8) && !CK(ck11) && !CK(ck17)) ==> REFUSED)
/* 3. an object with CKA_MODIFIABLE false cannot be changed */
__CPROVER_ensures(((IN(op) == VP_OP_SET || IN(op) == VP_OP_COPY) && OBJB(0, MODIFIABLE) == 1) ==> REFUSED)
/* 4. history attributes cannot be supplied by the caller: ck2 at create, ck4 at generate, ck6 at unwrap */
__CPROVER_ensures((IN(op) == VP_OP_CREATE && CK(ck2)) ==> REFUSED)
__CPROVER_ensures((IN(op) == VP_OP_GENERATE && CK(ck4)) ==> REFUSED)
__CPROVER_ensures((IN(op) == VP_OP_UNWRAP && CK(ck6)) ==> REFUSED)
/* 5. a trusted certificate cannot be modified */
__CPROVER_ensures(((IN(op) == VP_OP_SET || IN(op) == VP_OP_COPY) && OBJB(0, TRUSTED) == 2 && OBJU_HAS(0, CLASS) && OBJU(0, CLASS) == CKO_CERTIFICATE) ==> REFUSED)
/* 6. malformed values never reach an override (the overrides dereference pValue with the fixed size) */
__CPROVER_ensures((IN(nullValue) && IN(len) != 0) ==> REFUSED)
__CPROVER_ensures((IN(size) != (CK_ULONG)-1 && IN(size) != IN(len)) ==> REFUSED)
/* 7. update() itself stores nothing; the value reaches the store only through updateAttr, once, unchanged */
__CPROVER_ensures(CNT(SET) == 0 && CNT(DELETE) == 0)
__CPROVER_ensures(OUT(n_updateAttr) <= 1)
__CPROVER_ensures((OUT(n_updateAttr) == 1) ==> (OUT(ua_len) == IN(len) && OUT(ua_op) == IN(op) && __CPROVER_return_value == IN(updateAttr_rv)))
__CPROVER_assigns(__CPROVER_object_whole(vp_out), VP_ENV_FRAME);

void vp_call_update(void) { vp_rv = vp_update(); }

void h_update(void)
{
  __CPROVER_havoc_object(vp_in); VP_HAVOC_OBJECTS();
  vp_call_update();
  VP_COVER(vp_rv == CKR_OK && IN(op) == VP_OP_SET);
  VP_COVER(vp_rv == CKR_OK && IN(op) == VP_OP_COPY && !CK(ck8));
  VP_COVER(vp_rv == CKR_ATTRIBUTE_READ_ONLY);
  VP_COVER(OUT(n_updateAttr) == 1 && IN(op) == VP_OP_CREATE);
}
