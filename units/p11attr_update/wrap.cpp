#include "config.h"
#include "P11Attributes.h"
#include "shared.h"
#include "k_p11.h"

// the constants the contract (plain C) uses are the ones of the real header
typedef char vp_sa_ops[(OBJECT_OP_COPY == VP_OP_COPY && OBJECT_OP_CREATE == VP_OP_CREATE && OBJECT_OP_DERIVE == VP_OP_DERIVE &&
                        OBJECT_OP_GENERATE == VP_OP_GENERATE && OBJECT_OP_SET == VP_OP_SET && OBJECT_OP_UNWRAP == VP_OP_UNWRAP) ? 1 : -1];
typedef char vp_sa_cks[(P11Attribute::ck2 == VP_ck2 && P11Attribute::ck4 == VP_ck4 && P11Attribute::ck6 == VP_ck6 && P11Attribute::ck7 == VP_ck7 &&
                        P11Attribute::ck8 == VP_ck8 && P11Attribute::ck10 == VP_ck10 && P11Attribute::ck11 == VP_ck11 && P11Attribute::ck12 == VP_ck12 &&
                        P11Attribute::ck17 == VP_ck17) ? 1 : -1];

// ---- the virtual updateAttr is seen through its interface contract only
#ifdef VP_NATIVE
class VpAttr : public P11Attribute
{
public:
	VpAttr(OSObject* o) : P11Attribute(o) {}
	virtual bool setDefault() { return true; }
	virtual CK_RV updateAttr(Token* token, bool isPrivate, CK_VOID_PTR pValue, CK_ULONG ulValueLen, int op);
};
#define ATTR VpAttr
#else
#define ATTR P11Attribute
#endif

CK_RV ATTR::updateAttr(Token* /*token*/, bool /*isPrivate*/, CK_VOID_PTR pValue, CK_ULONG ulValueLen, int op)
{
	OUT(n_updateAttr)++;
	OUT(ua_len) = ulValueLen;
	OUT(ua_op) = (CK_ULONG)op;
	OUT(ua_null) = pValue == NULL;
	return vpi_updateAttr();
}

extern "C" CK_RV vp_update(void)
{
	long tok_store[(sizeof(Token) + 7) / 8]; Token* tok = (Token*)(void*)&tok_store[0];
	unsigned char buf[8];
	ATTR a(vp_obj(0));
	a.checks = IN(checks);
	a.size = IN(size);
	a.type = CKA_LABEL;
	return a.update(tok, IN(isPrivate) != 0, IN(nullValue) ? (CK_VOID_PTR)0 : (CK_VOID_PTR)&buf[0], IN(len), (int)IN(op));
}
