#include "config.h"
#include "SoftHSM.h"
#include "softhsm_env.h"

#define BUFS unsigned char data[8]; unsigned char out[8]; CK_ULONG len = SES(OUT_LEN); CK_ULONG_PTR plen = SES(NULL_OUT) ? (CK_ULONG_PTR)0 : &len

extern "C" CK_RV vp_C_Encrypt(void)
{
	VP_MK_HSM(); BUFS; CK_OBJECT_HANDLE hobjs[2];
	return hsm->C_Encrypt(SES(HSESSION), &data[0], 8, &out[0], plen);
}

extern "C" CK_RV vp_C_EncryptUpdate(void)
{
	VP_MK_HSM(); BUFS; CK_OBJECT_HANDLE hobjs[2];
	return hsm->C_EncryptUpdate(SES(HSESSION), &data[0], 8, &out[0], plen);
}

extern "C" CK_RV vp_C_EncryptFinal(void)
{
	VP_MK_HSM(); BUFS; CK_OBJECT_HANDLE hobjs[2];
	return hsm->C_EncryptFinal(SES(HSESSION), &out[0], plen);
}

extern "C" CK_RV vp_C_Decrypt(void)
{
	VP_MK_HSM(); BUFS; CK_OBJECT_HANDLE hobjs[2];
	return hsm->C_Decrypt(SES(HSESSION), &data[0], 8, &out[0], plen);
}

extern "C" CK_RV vp_C_DecryptUpdate(void)
{
	VP_MK_HSM(); BUFS; CK_OBJECT_HANDLE hobjs[2];
	return hsm->C_DecryptUpdate(SES(HSESSION), &data[0], 8, &out[0], plen);
}

extern "C" CK_RV vp_C_DecryptFinal(void)
{
	VP_MK_HSM(); BUFS; CK_OBJECT_HANDLE hobjs[2];
	return hsm->C_DecryptFinal(SES(HSESSION), &out[0], plen);
}

extern "C" CK_RV vp_C_Digest(void)
{
	VP_MK_HSM(); BUFS; CK_OBJECT_HANDLE hobjs[2];
	return hsm->C_Digest(SES(HSESSION), &data[0], 8, &out[0], plen);
}

extern "C" CK_RV vp_C_DigestUpdate(void)
{
	VP_MK_HSM(); BUFS; CK_OBJECT_HANDLE hobjs[2];
	return hsm->C_DigestUpdate(SES(HSESSION), &data[0], 8);
}

extern "C" CK_RV vp_C_DigestFinal(void)
{
	VP_MK_HSM(); BUFS; CK_OBJECT_HANDLE hobjs[2];
	return hsm->C_DigestFinal(SES(HSESSION), &out[0], plen);
}

extern "C" CK_RV vp_C_Sign(void)
{
	VP_MK_HSM(); BUFS; CK_OBJECT_HANDLE hobjs[2];
	return hsm->C_Sign(SES(HSESSION), &data[0], 8, &out[0], plen);
}

extern "C" CK_RV vp_C_SignUpdate(void)
{
	VP_MK_HSM(); BUFS; CK_OBJECT_HANDLE hobjs[2];
	return hsm->C_SignUpdate(SES(HSESSION), &data[0], 8);
}

extern "C" CK_RV vp_C_SignFinal(void)
{
	VP_MK_HSM(); BUFS; CK_OBJECT_HANDLE hobjs[2];
	return hsm->C_SignFinal(SES(HSESSION), &out[0], plen);
}

extern "C" CK_RV vp_C_Verify(void)
{
	VP_MK_HSM(); BUFS; CK_OBJECT_HANDLE hobjs[2];
	return hsm->C_Verify(SES(HSESSION), &data[0], 8, &out[0], 8);
}

extern "C" CK_RV vp_C_VerifyUpdate(void)
{
	VP_MK_HSM(); BUFS; CK_OBJECT_HANDLE hobjs[2];
	return hsm->C_VerifyUpdate(SES(HSESSION), &data[0], 8);
}

extern "C" CK_RV vp_C_VerifyFinal(void)
{
	VP_MK_HSM(); BUFS; CK_OBJECT_HANDLE hobjs[2];
	return hsm->C_VerifyFinal(SES(HSESSION), &out[0], 8);
}

extern "C" CK_RV vp_C_FindObjects(void)
{
	VP_MK_HSM(); BUFS; CK_OBJECT_HANDLE hobjs[2];
	return hsm->C_FindObjects(SES(HSESSION), &hobjs[0], 2, plen);
}

extern "C" CK_RV vp_C_FindObjectsFinal(void)
{
	VP_MK_HSM();
	return hsm->C_FindObjectsFinal(SES(HSESSION));
}
