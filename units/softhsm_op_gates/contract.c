/* C12: continuing an operation that was not started returns CKR_OPERATION_NOT_INITIALIZED and touches nothing -
 * in particular it does not reset whatever other operation is active in the session. */
#include "softhsm_env.h"

CK_RV vp_rv;
VP_SOFTHSM_CALLEE_CONTRACTS

#define RV __CPROVER_return_value
#define K_OPGATE(OP) \
  __CPROVER_requires(VP_FRESH_GHOST && SES(OPTYPE) <= 0x10) \
  __CPROVER_ensures((SES(INIT) && SES(VALID) && !SES(NULL_OUT) && SES(OPTYPE) != (OP)) ==> (RV == CKR_OPERATION_NOT_INITIALIZED && VP_NO_EFFECT)) \
  __CPROVER_ensures((!SES(INIT) || !SES(VALID)) ==> (RV != CKR_OK && VP_NO_EFFECT)) \
  __CPROVER_ensures((SFX(TAIL_N) == 0) ==> (RV != CKR_OK)) \
  __CPROVER_ensures((SFX(TAIL_N) == 0 && !SES(NULL_OUT)) ==> VP_NO_EFFECT) /* (a NULL length pointer deliberately ends the operation, issue #469) */ \
  __CPROVER_ensures((SFX(TAIL_N) > 0) ==> (SES(OPTYPE) == (OP))) \
  __CPROVER_assigns(VP_SOFTHSM_FRAME)

CK_RV vp_C_Encrypt(void) K_OPGATE(2);
void vp_call_C_Encrypt(void) { vp_rv = vp_C_Encrypt(); }
void h_C_Encrypt(void) { VP_HAVOC_SOFTHSM(); vp_call_C_Encrypt(); VP_COVER(vp_rv == CKR_OK && SFX(TAIL_N) == 1); VP_COVER(vp_rv == CKR_OPERATION_NOT_INITIALIZED); }

CK_RV vp_C_EncryptUpdate(void) K_OPGATE(2);
void vp_call_C_EncryptUpdate(void) { vp_rv = vp_C_EncryptUpdate(); }
void h_C_EncryptUpdate(void) { VP_HAVOC_SOFTHSM(); vp_call_C_EncryptUpdate(); VP_COVER(vp_rv == CKR_OK && SFX(TAIL_N) == 1); VP_COVER(vp_rv == CKR_OPERATION_NOT_INITIALIZED); }

CK_RV vp_C_EncryptFinal(void) K_OPGATE(2);
void vp_call_C_EncryptFinal(void) { vp_rv = vp_C_EncryptFinal(); }
void h_C_EncryptFinal(void) { VP_HAVOC_SOFTHSM(); vp_call_C_EncryptFinal(); VP_COVER(vp_rv == CKR_OK && SFX(TAIL_N) == 1); VP_COVER(vp_rv == CKR_OPERATION_NOT_INITIALIZED); }

CK_RV vp_C_Decrypt(void) K_OPGATE(3);
void vp_call_C_Decrypt(void) { vp_rv = vp_C_Decrypt(); }
void h_C_Decrypt(void) { VP_HAVOC_SOFTHSM(); vp_call_C_Decrypt(); VP_COVER(vp_rv == CKR_OK && SFX(TAIL_N) == 1); VP_COVER(vp_rv == CKR_OPERATION_NOT_INITIALIZED); }

CK_RV vp_C_DecryptUpdate(void) K_OPGATE(3);
void vp_call_C_DecryptUpdate(void) { vp_rv = vp_C_DecryptUpdate(); }
void h_C_DecryptUpdate(void) { VP_HAVOC_SOFTHSM(); vp_call_C_DecryptUpdate(); VP_COVER(vp_rv == CKR_OK && SFX(TAIL_N) == 1); VP_COVER(vp_rv == CKR_OPERATION_NOT_INITIALIZED); }

CK_RV vp_C_DecryptFinal(void) K_OPGATE(3);
void vp_call_C_DecryptFinal(void) { vp_rv = vp_C_DecryptFinal(); }
void h_C_DecryptFinal(void) { VP_HAVOC_SOFTHSM(); vp_call_C_DecryptFinal(); VP_COVER(vp_rv == CKR_OK && SFX(TAIL_N) == 1); VP_COVER(vp_rv == CKR_OPERATION_NOT_INITIALIZED); }

CK_RV vp_C_Digest(void) K_OPGATE(4);
void vp_call_C_Digest(void) { vp_rv = vp_C_Digest(); }
void h_C_Digest(void) { VP_HAVOC_SOFTHSM(); vp_call_C_Digest(); VP_COVER(vp_rv == CKR_OK && SFX(TAIL_N) == 1); VP_COVER(vp_rv == CKR_OPERATION_NOT_INITIALIZED); }

CK_RV vp_C_DigestUpdate(void) K_OPGATE(4);
void vp_call_C_DigestUpdate(void) { vp_rv = vp_C_DigestUpdate(); }
void h_C_DigestUpdate(void) { VP_HAVOC_SOFTHSM(); vp_call_C_DigestUpdate(); VP_COVER(vp_rv == CKR_OK && SFX(TAIL_N) == 1); VP_COVER(vp_rv == CKR_OPERATION_NOT_INITIALIZED); }

CK_RV vp_C_DigestFinal(void) K_OPGATE(4);
void vp_call_C_DigestFinal(void) { vp_rv = vp_C_DigestFinal(); }
void h_C_DigestFinal(void) { VP_HAVOC_SOFTHSM(); vp_call_C_DigestFinal(); VP_COVER(vp_rv == CKR_OK && SFX(TAIL_N) == 1); VP_COVER(vp_rv == CKR_OPERATION_NOT_INITIALIZED); }

CK_RV vp_C_Sign(void) K_OPGATE(5);
void vp_call_C_Sign(void) { vp_rv = vp_C_Sign(); }
void h_C_Sign(void) { VP_HAVOC_SOFTHSM(); vp_call_C_Sign(); VP_COVER(vp_rv == CKR_OK && SFX(TAIL_N) == 1); VP_COVER(vp_rv == CKR_OPERATION_NOT_INITIALIZED); }

CK_RV vp_C_SignUpdate(void) K_OPGATE(5);
void vp_call_C_SignUpdate(void) { vp_rv = vp_C_SignUpdate(); }
void h_C_SignUpdate(void) { VP_HAVOC_SOFTHSM(); vp_call_C_SignUpdate(); VP_COVER(vp_rv == CKR_OK && SFX(TAIL_N) == 1); VP_COVER(vp_rv == CKR_OPERATION_NOT_INITIALIZED); }

CK_RV vp_C_SignFinal(void) K_OPGATE(5);
void vp_call_C_SignFinal(void) { vp_rv = vp_C_SignFinal(); }
void h_C_SignFinal(void) { VP_HAVOC_SOFTHSM(); vp_call_C_SignFinal(); VP_COVER(vp_rv == CKR_OK && SFX(TAIL_N) == 1); VP_COVER(vp_rv == CKR_OPERATION_NOT_INITIALIZED); }

CK_RV vp_C_Verify(void) K_OPGATE(6);
void vp_call_C_Verify(void) { vp_rv = vp_C_Verify(); }
void h_C_Verify(void) { VP_HAVOC_SOFTHSM(); vp_call_C_Verify(); VP_COVER(vp_rv == CKR_OK && SFX(TAIL_N) == 1); VP_COVER(vp_rv == CKR_OPERATION_NOT_INITIALIZED); }

CK_RV vp_C_VerifyUpdate(void) K_OPGATE(6);
void vp_call_C_VerifyUpdate(void) { vp_rv = vp_C_VerifyUpdate(); }
void h_C_VerifyUpdate(void) { VP_HAVOC_SOFTHSM(); vp_call_C_VerifyUpdate(); VP_COVER(vp_rv == CKR_OK && SFX(TAIL_N) == 1); VP_COVER(vp_rv == CKR_OPERATION_NOT_INITIALIZED); }

CK_RV vp_C_VerifyFinal(void) K_OPGATE(6);
void vp_call_C_VerifyFinal(void) { vp_rv = vp_C_VerifyFinal(); }
void h_C_VerifyFinal(void) { VP_HAVOC_SOFTHSM(); vp_call_C_VerifyFinal(); VP_COVER(vp_rv == CKR_OK && SFX(TAIL_N) == 1); VP_COVER(vp_rv == CKR_OPERATION_NOT_INITIALIZED); }

CK_RV vp_C_FindObjects(void) K_OPGATE(1);
void vp_call_C_FindObjects(void) { vp_rv = vp_C_FindObjects(); }
void h_C_FindObjects(void) { VP_HAVOC_SOFTHSM(); vp_call_C_FindObjects(); VP_COVER(vp_rv == CKR_OK && SFX(TAIL_N) == 1); VP_COVER(vp_rv == CKR_OPERATION_NOT_INITIALIZED); }

/* C_FindObjectsFinal (whole function): ends the find operation - and only a find operation */
CK_RV vp_C_FindObjectsFinal(void)
__CPROVER_requires(VP_FRESH_GHOST && SES(OPTYPE) <= 0x10)
__CPROVER_ensures((SES(INIT) && SES(VALID) && SES(OPTYPE) != 1) ==> (RV == CKR_OPERATION_NOT_INITIALIZED && VP_NO_EFFECT))
__CPROVER_ensures((RV != CKR_OK) ==> VP_NO_EFFECT)
__CPROVER_ensures((RV == CKR_OK) ==> (SFX(RESETOP_N) == 1 && SES(OPTYPE) == 1))
__CPROVER_assigns(VP_SOFTHSM_FRAME);
void vp_call_C_FindObjectsFinal(void) { vp_rv = vp_C_FindObjectsFinal(); }
void h_C_FindObjectsFinal(void) { VP_HAVOC_SOFTHSM(); vp_call_C_FindObjectsFinal(); VP_COVER(vp_rv == CKR_OK); VP_COVER(vp_rv == CKR_OPERATION_NOT_INITIALIZED); }
