// (cbmc: included at the end of the sliced FindOperation.cpp)
#include "config.h"
#include "SoftHSM.h"
#include "FindOperation.h"
#include "shared.h"
static FindOperation* vp_the_findop = 0;
FindOperation* Session::getFindOp() { return IN(findopNull) ? (FindOperation*)0 : vp_the_findop; }
static CK_RV one(SoftHSM* hsm, CK_ULONG m, int rvIdx, int cIdx, int cell0)
{
	CK_OBJECT_HANDLE buf[3]; CK_ULONG cnt = 0;
	buf[0] = VP_PRE; buf[1] = VP_PRE; buf[2] = VP_PRE;
	CK_RV rv = hsm->C_FindObjects(SES(HSESSION), &buf[0], m, &cnt);
	vp_out[rvIdx] = rv; vp_out[cIdx] = cnt; vp_out[cell0] = buf[0]; vp_out[cell0 + 1] = buf[1]; vp_out[cell0 + 2] = buf[2];
	return rv;
}
extern "C" void vp_batches(void)
{
	VP_MK_HSM();
	FindOperation op;
	std::set<CK_OBJECT_HANDLE> s;
	if (IN(n) >= 1) s.insert(IN(h0));
	if (IN(n) >= 2) s.insert(IN(h1));
	if (IN(n) >= 3) s.insert(IN(h2));
	op.setHandles(s);
	vp_the_findop = &op;
	one(hsm, IN(m1), (int)O_rv1, (int)O_c1, (int)O_a0);
	one(hsm, IN(m2), (int)O_rv2, (int)O_c2, (int)O_b0);
	one(hsm, IN(m3), (int)O_rv3, (int)O_c3, (int)O_c0);
	vp_the_findop = 0;
}
