#ifndef VP_FINDOP_SHARED_H
#define VP_FINDOP_SHARED_H
#include "softhsm_env.h"
#define VP_NH 3
enum vp_in_idx { I_n, I_h0, I_h1, I_h2, I_m1, I_m2, I_m3, I_w, I_findopNull, VP_IN_N };
/* per call: rv, count written, the three output cells */
enum vp_out_idx { O_rv1, O_c1, O_a0, O_a1, O_a2, O_rv2, O_c2, O_b0, O_b1, O_b2, O_rv3, O_c3, O_c0, O_c1_, O_c2_, VP_OUT_N };
VP_C_BEGIN
extern CK_ULONG vp_in[VP_IN_N];
extern CK_ULONG vp_out[VP_OUT_N];
VP_C_END
#define IN(x) vp_in[(int)I_##x]
#define OUT(x) vp_out[(int)O_##x]
#define VP_PRE 0xdeadUL    /* content of every output cell before the calls */
#endif
