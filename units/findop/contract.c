/* C19 "each exactly once, split arbitrarily over the calls": the real SoftHSM::C_FindObjects over the real FindOperation.
 * For every captured result set of <= 3 handles and every three batch sizes: the calls return min(batch, remaining)
 * handles, every handle of the set exactly once over the calls, nothing else, and never write beyond the count they report.
 * C12: without an active find operation the call fails and writes nothing. */
#include "shared.h"
CK_ULONG vp_in[VP_IN_N];
CK_ULONG vp_out[VP_OUT_N];
CK_RV vp_rv;
VP_SOFTHSM_CALLEE_CONTRACTS
#define N IN(n)
#define H(i) vp_in[(int)I_h0 + (i)]
/* number of distinct handles in the captured set */
static CK_ULONG distinct(void)
{
  CK_ULONG d = 0;
  for (CK_ULONG i = 0; i < VP_NH; i++) { if (!(i < N)) continue; int dup = 0; for (CK_ULONG j = 0; j < i; j++) if (H(j) == H(i)) dup = 1; if (!dup) d++; }
  return d;
}
static CK_ULONG mn(CK_ULONG a, CK_ULONG b) { return a < b ? a : b; }
/* how many times value v is returned over the three calls (only cells below the reported counts are results) */
static CK_ULONG times(CK_ULONG v)
{
  CK_ULONG t = 0;
  for (CK_ULONG j = 0; j < 3; j++) { if (j < OUT(c1) && vp_out[(int)O_a0 + j] == v) t++; if (j < OUT(c2) && vp_out[(int)O_b0 + j] == v) t++; if (j < OUT(c3) && vp_out[(int)O_c0 + j] == v) t++; }
  return t;
}
static int in_set(CK_ULONG v) { for (CK_ULONG i = 0; i < VP_NH; i++) if (i < N && H(i) == v) return 1; return 0; }
/* every returned value is a handle of the set */
static int only_members(void)
{
  for (CK_ULONG j = 0; j < 3; j++)
  {
    if (j < OUT(c1) && !in_set(vp_out[(int)O_a0 + j])) return 0;
    if (j < OUT(c2) && !in_set(vp_out[(int)O_b0 + j])) return 0;
    if (j < OUT(c3) && !in_set(vp_out[(int)O_c0 + j])) return 0;
  }
  return 1;
}
/* cells at or beyond the reported count keep their previous content */
static int untouched_beyond(void)
{
  for (CK_ULONG j = 0; j < 3; j++)
  {
    if (j >= OUT(c1) && vp_out[(int)O_a0 + j] != VP_PRE) return 0;
    if (j >= OUT(c2) && vp_out[(int)O_b0 + j] != VP_PRE) return 0;
    if (j >= OUT(c3) && vp_out[(int)O_c0 + j] != VP_PRE) return 0;
  }
  return 1;
}
#define GOOD (SES(INIT) && SES(VALID) && SES(OPTYPE) == 0x1 && !IN(findopNull))
#define D distinct()
void vp_batches(void)
__CPROVER_requires(N <= VP_NH && IN(m1) <= 3 && IN(m2) <= 3 && IN(m3) <= 3 && IN(w) < N && SES(OPTYPE) <= 0x10)
__CPROVER_ensures(GOOD ==> (OUT(rv1) == CKR_OK && OUT(rv2) == CKR_OK && OUT(rv3) == CKR_OK))
__CPROVER_ensures(GOOD ==> (OUT(c1) == mn(IN(m1), D) && OUT(c2) == mn(IN(m2), D - OUT(c1)) && OUT(c3) == mn(IN(m3), D - OUT(c1) - OUT(c2))))
__CPROVER_ensures(GOOD ==> (only_members() && untouched_beyond()))
/* no handle twice; once the batches add up to the set, every handle exactly once */
__CPROVER_ensures(GOOD ==> (times(H(IN(w))) <= 1))
__CPROVER_ensures((GOOD && IN(m1) + IN(m2) + IN(m3) >= D) ==> (times(H(IN(w))) == 1))
/* C12: no find operation active -> error, nothing written */
__CPROVER_ensures(!GOOD ==> (OUT(rv1) != CKR_OK && OUT(rv2) != CKR_OK && OUT(rv3) != CKR_OK && OUT(c1) == 0 && OUT(c2) == 0 && OUT(c3) == 0 && untouched_beyond()))
__CPROVER_ensures((SES(INIT) && SES(VALID) && SES(OPTYPE) != 0x1) ==> (OUT(rv1) == CKR_OPERATION_NOT_INITIALIZED))
__CPROVER_assigns(__CPROVER_object_whole(vp_out), VP_SOFTHSM_FRAME);
void vp_call_batches(void) { vp_batches(); }
void h_batches(void)
{
  VP_HAVOC_SOFTHSM(); __CPROVER_havoc_object(vp_in);
  vp_call_batches();
  VP_COVER(GOOD && D == 3 && OUT(c1) == 1 && OUT(c2) == 2 && OUT(c3) == 0);
  VP_COVER(GOOD && N == 3 && D == 2 && OUT(c1) == 2);
  VP_COVER(GOOD && D == 3 && IN(m1) == 0 && OUT(c2) == 3);
  VP_COVER(!GOOD && SES(INIT) && SES(VALID));
  VP_COVER(GOOD && D == 3 && OUT(c1) + OUT(c2) + OUT(c3) == 2);
}
