/* C09 "no prefix of a rejected template is applied ... for token and session objects": P11Object::saveTemplate applies a
 * template inside startTransaction .. commitTransaction and calls abortTransaction on the first rejected entry.  For a
 * session object that only works if SessionObject::abortTransaction really restores the attributes:
 *   start; any set/delete operations; abort   ==>  every attribute (witness type over all 64-bit values) exists / has the
 *   kind and value it had before the transaction;        start; ops; commit  ==>  the operations are applied. */
#include "shared.h"
CK_ULONG vp_in[VP_IN_N];
CK_ULONG vp_in_init[VP_NI * 3];
CK_ULONG vp_in_ops[VP_NO * 3];
CK_ULONG vp_out[VP_OUT_N];
CK_RV vp_rv;
#define TW IN(tw)
/* model of the witness attribute: 0 = absent, else kind; value in *v */
static CK_ULONG m_before(CK_ULONG* v)
{
  CK_ULONG k = 0; *v = 0;
  for (CK_ULONG i = 0; i < VP_NI; i++) if (i < IN(n0) && INI(i, 0) == TW) { k = INI(i, 1); *v = vp_norm(INI(i, 1), INI(i, 2)); }
  return k;
}
static CK_ULONG m_after_ops(CK_ULONG* v)
{
  CK_ULONG k = m_before(v);
  for (CK_ULONG i = 0; i < VP_NO; i++) if (i < IN(nops) && OPS(i, 0) == TW)
  {
    if (OPS(i, 1) == 0) { k = 0; *v = 0; } else { k = OPS(i, 1); *v = vp_norm(OPS(i, 1), OPS(i, 2)); }
  }
  return k;
}
static int same_as_before(void) { CK_ULONG v; CK_ULONG k = m_before(&v); return OUT(ex_after) == (k != 0) && (k == 0 || (OUT(kind_after) == k && OUT(val_after) == v)); }
static int ops_applied(void) { CK_ULONG v; CK_ULONG k = m_after_ops(&v); return OUT(ex_after) == (k != 0) && (k == 0 || (OUT(kind_after) == k && OUT(val_after) == v)); }
static int before_ok(void) { CK_ULONG v; CK_ULONG k = m_before(&v); return OUT(ex_before) == (k != 0) && (k == 0 || (OUT(kind_before) == k && OUT(val_before) == v)); }
static int kinds_ok(void)
{
  /* the kinds the entry uses: the attribute is a byte string; operation 0 sets a boolean or deletes, operation 1 sets a byte string or deletes */
  return INI(0, 1) == 3 && (OPS(0, 1) == 0 || OPS(0, 1) == 1) && (OPS(1, 1) == 0 || OPS(1, 1) == 3);
}
void vp_tx(void)
__CPROVER_requires(IN(n0) <= VP_NI && IN(nops) <= VP_NO && IN(end) <= 1 && kinds_ok())
__CPROVER_ensures(before_ok() && OUT(start_rv) == 1 && OUT(end_rv) == 1)
/* abort: exactly the state before the transaction */
__CPROVER_ensures((IN(end) == 0) ==> same_as_before())
/* commit: the operations are applied */
__CPROVER_ensures((IN(end) == 1) ==> ops_applied())
__CPROVER_assigns(__CPROVER_object_whole(vp_out));
void vp_call_tx(void) { vp_tx(); }
void h_tx(void)
{
  __CPROVER_havoc_object(vp_in); __CPROVER_havoc_object(vp_in_init); __CPROVER_havoc_object(vp_in_ops);
  vp_call_tx();
  VP_COVER(IN(end) == 0 && OUT(ex_before) && OUT(kind_before) == 3 && IN(nops) == 2 && OPS(0, 0) == TW && OPS(0, 1) == 0);
  VP_COVER(IN(end) == 0 && !OUT(ex_before) && IN(nops) >= 1 && OPS(0, 0) == TW && OPS(0, 1) == 1);
  VP_COVER(IN(end) == 1 && OUT(ex_after) && OUT(kind_after) == 1 && OUT(kind_before) == 3);
  VP_COVER(IN(end) == 0 && OUT(kind_before) == 3 && IN(nops) == 2 && OPS(0, 0) == TW && OPS(1, 0) == TW && OPS(1, 1) == 3);
  VP_COVER(IN(end) == 1 && !OUT(ex_after) && OUT(ex_before));
}
