// (cbmc: included at the end of the sliced SessionObject.cpp; native twin: separate translation unit)
#include "config.h"
#include "SessionObject.h"
#include "SessionObjectStore.h"
#include "shared.h"
#ifndef VP_NATIVE
bool SessionObjectStore::deleteObject(SessionObject*) { return true; }
#endif
static void do_set(SessionObject& o, CK_ULONG type, CK_ULONG kind, CK_ULONG val)
{
	if (kind == 1) { bool b = val != 0; OSAttribute a(b); o.setAttribute(type, a); }
	else if (kind == 2) { unsigned long u = val; OSAttribute a(u); o.setAttribute(type, a); }
	else
	{
		ByteString bs; bs.resize(val % 3);
		for (size_t i = 0; i < val % 3; i++) bs[i] = (unsigned char)(val >> 8);
		OSAttribute a(bs); o.setAttribute(type, a);
	}
}
static void snap(SessionObject& o, CK_ULONG type, int exIdx)
{
	bool ex = o.attributeExists(type);
	vp_out[exIdx] = ex; vp_out[exIdx + 1] = 0; vp_out[exIdx + 2] = 0;
	if (!ex) return;
	OSAttribute a = o.getAttribute(type);
	if (a.isBooleanAttribute()) { vp_out[exIdx + 1] = 1; vp_out[exIdx + 2] = a.getBooleanValue(); }
	else if (a.isUnsignedLongAttribute()) { vp_out[exIdx + 1] = 2; vp_out[exIdx + 2] = a.getUnsignedLongValue(); }
	else if (a.isByteStringAttribute())
	{
		ByteString v = a.getByteStringValue();
		vp_out[exIdx + 1] = 3; vp_out[exIdx + 2] = v.size() | (v.size() ? ((CK_ULONG)v[0] << 8) : 0);
	}
	else vp_out[exIdx + 1] = 9;
}
extern "C" void vp_tx(void)
{
	SessionObject obj((SessionObjectStore*)0, 1, 1, false);
	// (kinds are compile-time constants - the contract requires the ghost inputs to agree - so that cbmc does not execute every kind at every step)
	if (0 < IN(n0)) do_set(obj, INI(0, 0), 3, INI(0, 2));
	snap(obj, IN(tw), (int)O_ex_before);
	OUT(start_rv) = obj.startTransaction(OSObject::ReadWrite);
	if (0 < IN(nops)) { if (OPS(0, 1) == 0) obj.deleteAttribute(OPS(0, 0)); else do_set(obj, OPS(0, 0), 1, OPS(0, 2)); }
	if (1 < IN(nops)) { if (OPS(1, 1) == 0) obj.deleteAttribute(OPS(1, 0)); else do_set(obj, OPS(1, 0), 3, OPS(1, 2)); }
	OUT(end_rv) = IN(end) ? obj.commitTransaction() : obj.abortTransaction();
	snap(obj, IN(tw), (int)O_ex_after);
}
