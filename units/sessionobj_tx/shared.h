#ifndef VP_SOTX_SHARED_H
#define VP_SOTX_SHARED_H
#include "vp.h"
#define VP_NI 1   /* initial attributes */
#define VP_NO 2   /* operations inside the transaction */
enum vp_in_idx { I_n0, I_nops, I_end, I_tw, VP_IN_N };
/* attribute / operation record: type, kind (1 bool, 2 ulong, 3 bytes; operations: 0 = delete), value */
enum vp_out_idx { O_ex_before, O_kind_before, O_val_before, O_ex_after, O_kind_after, O_val_after, O_start_rv, O_end_rv, VP_OUT_N };
VP_C_BEGIN
extern CK_ULONG vp_in[VP_IN_N];
extern CK_ULONG vp_in_init[VP_NI * 3];
extern CK_ULONG vp_in_ops[VP_NO * 3];
extern CK_ULONG vp_out[VP_OUT_N];
VP_C_END
#define IN(x) vp_in[(int)I_##x]
#define OUT(x) vp_out[(int)O_##x]
#define INI(i, f) vp_in_init[(i) * 3 + (f)]
#define OPS(i, f) vp_in_ops[(i) * 3 + (f)]
/* the value as the snapshot reports it */
static inline CK_ULONG vp_norm(CK_ULONG kind, CK_ULONG v)
{
	if (kind == 1) return v != 0;
	if (kind == 2) return v;
	return (v % 3) | ((v % 3) ? (((v >> 8) & 0xff) << 8) : 0);
}
#endif
