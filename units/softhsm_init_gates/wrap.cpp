#include "config.h"
#include "SoftHSM.h"
#include "softhsm_env.h"

extern "C" CK_RV vp_SymEncryptInit(void)
{
	VP_MK_HSM(); VP_MK_MECH();
	return hsm->SymEncryptInit(SES(HSESSION), pMech, SES(HARG0));
}

extern "C" CK_RV vp_AsymEncryptInit(void)
{
	VP_MK_HSM(); VP_MK_MECH();
	return hsm->AsymEncryptInit(SES(HSESSION), pMech, SES(HARG0));
}

extern "C" CK_RV vp_SymDecryptInit(void)
{
	VP_MK_HSM(); VP_MK_MECH();
	return hsm->SymDecryptInit(SES(HSESSION), pMech, SES(HARG0));
}

extern "C" CK_RV vp_AsymDecryptInit(void)
{
	VP_MK_HSM(); VP_MK_MECH();
	return hsm->AsymDecryptInit(SES(HSESSION), pMech, SES(HARG0));
}

extern "C" CK_RV vp_MacSignInit(void)
{
	VP_MK_HSM(); VP_MK_MECH();
	return hsm->MacSignInit(SES(HSESSION), pMech, SES(HARG0));
}

extern "C" CK_RV vp_AsymSignInit(void)
{
	VP_MK_HSM(); VP_MK_MECH();
	return hsm->AsymSignInit(SES(HSESSION), pMech, SES(HARG0));
}

extern "C" CK_RV vp_MacVerifyInit(void)
{
	VP_MK_HSM(); VP_MK_MECH();
	return hsm->MacVerifyInit(SES(HSESSION), pMech, SES(HARG0));
}

extern "C" CK_RV vp_AsymVerifyInit(void)
{
	VP_MK_HSM(); VP_MK_MECH();
	return hsm->AsymVerifyInit(SES(HSESSION), pMech, SES(HARG0));
}
