/* The guard prefix of the eight *Init functions of SoftHSM.cpp: operation gate (C12), access matrix (C01),
 * usage flag and allowed-mechanism guard (C07).  One contract shape, instantiated per function. */
#include "softhsm_env.h"
#include "k_gate.h"

CK_RV vp_rv;
VP_SOFTHSM_CALLEE_CONTRACTS

CK_RV vp_SymEncryptInit(void)
K_INIT_GATE(ENCRYPT)
;
void vp_call_SymEncryptInit(void) { vp_rv = vp_SymEncryptInit(); }
void h_SymEncryptInit(void) { VP_HAVOC_SOFTHSM(); vp_call_SymEncryptInit(); VP_COVER(vp_rv == CKR_OK && SFX(TAIL_N) == 1); VP_COVER(vp_rv == CKR_OPERATION_ACTIVE); VP_COVER(vp_rv == CKR_KEY_FUNCTION_NOT_PERMITTED); VP_COVER(vp_rv == CKR_USER_NOT_LOGGED_IN); }

CK_RV vp_AsymEncryptInit(void)
K_INIT_GATE(ENCRYPT)
;
void vp_call_AsymEncryptInit(void) { vp_rv = vp_AsymEncryptInit(); }
void h_AsymEncryptInit(void) { VP_HAVOC_SOFTHSM(); vp_call_AsymEncryptInit(); VP_COVER(vp_rv == CKR_OK && SFX(TAIL_N) == 1); VP_COVER(vp_rv == CKR_OPERATION_ACTIVE); VP_COVER(vp_rv == CKR_KEY_FUNCTION_NOT_PERMITTED); VP_COVER(vp_rv == CKR_USER_NOT_LOGGED_IN); }

CK_RV vp_SymDecryptInit(void)
K_INIT_GATE(DECRYPT)
;
void vp_call_SymDecryptInit(void) { vp_rv = vp_SymDecryptInit(); }
void h_SymDecryptInit(void) { VP_HAVOC_SOFTHSM(); vp_call_SymDecryptInit(); VP_COVER(vp_rv == CKR_OK && SFX(TAIL_N) == 1); VP_COVER(vp_rv == CKR_OPERATION_ACTIVE); VP_COVER(vp_rv == CKR_KEY_FUNCTION_NOT_PERMITTED); VP_COVER(vp_rv == CKR_USER_NOT_LOGGED_IN); }

CK_RV vp_AsymDecryptInit(void)
K_INIT_GATE(DECRYPT)
;
void vp_call_AsymDecryptInit(void) { vp_rv = vp_AsymDecryptInit(); }
void h_AsymDecryptInit(void) { VP_HAVOC_SOFTHSM(); vp_call_AsymDecryptInit(); VP_COVER(vp_rv == CKR_OK && SFX(TAIL_N) == 1); VP_COVER(vp_rv == CKR_OPERATION_ACTIVE); VP_COVER(vp_rv == CKR_KEY_FUNCTION_NOT_PERMITTED); VP_COVER(vp_rv == CKR_USER_NOT_LOGGED_IN); }

CK_RV vp_MacSignInit(void)
K_INIT_GATE(SIGN)
;
void vp_call_MacSignInit(void) { vp_rv = vp_MacSignInit(); }
void h_MacSignInit(void) { VP_HAVOC_SOFTHSM(); vp_call_MacSignInit(); VP_COVER(vp_rv == CKR_OK && SFX(TAIL_N) == 1); VP_COVER(vp_rv == CKR_OPERATION_ACTIVE); VP_COVER(vp_rv == CKR_KEY_FUNCTION_NOT_PERMITTED); VP_COVER(vp_rv == CKR_USER_NOT_LOGGED_IN); }

CK_RV vp_AsymSignInit(void)
K_INIT_GATE(SIGN)
;
void vp_call_AsymSignInit(void) { vp_rv = vp_AsymSignInit(); }
void h_AsymSignInit(void) { VP_HAVOC_SOFTHSM(); vp_call_AsymSignInit(); VP_COVER(vp_rv == CKR_OK && SFX(TAIL_N) == 1); VP_COVER(vp_rv == CKR_OPERATION_ACTIVE); VP_COVER(vp_rv == CKR_KEY_FUNCTION_NOT_PERMITTED); VP_COVER(vp_rv == CKR_USER_NOT_LOGGED_IN); }

CK_RV vp_MacVerifyInit(void)
K_INIT_GATE(VERIFY)
;
void vp_call_MacVerifyInit(void) { vp_rv = vp_MacVerifyInit(); }
void h_MacVerifyInit(void) { VP_HAVOC_SOFTHSM(); vp_call_MacVerifyInit(); VP_COVER(vp_rv == CKR_OK && SFX(TAIL_N) == 1); VP_COVER(vp_rv == CKR_OPERATION_ACTIVE); VP_COVER(vp_rv == CKR_KEY_FUNCTION_NOT_PERMITTED); VP_COVER(vp_rv == CKR_USER_NOT_LOGGED_IN); }

CK_RV vp_AsymVerifyInit(void)
K_INIT_GATE(VERIFY)
;
void vp_call_AsymVerifyInit(void) { vp_rv = vp_AsymVerifyInit(); }
void h_AsymVerifyInit(void) { VP_HAVOC_SOFTHSM(); vp_call_AsymVerifyInit(); VP_COVER(vp_rv == CKR_OK && SFX(TAIL_N) == 1); VP_COVER(vp_rv == CKR_OPERATION_ACTIVE); VP_COVER(vp_rv == CKR_KEY_FUNCTION_NOT_PERMITTED); VP_COVER(vp_rv == CKR_USER_NOT_LOGGED_IN); }
