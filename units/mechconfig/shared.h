#ifndef VP_MC_SHARED_H
#define VP_MC_SHARED_H
#include "vp.h"
enum vp_in_idx { I_unused, VP_IN_N };
enum vp_out_idx { O_inputs, O_escaped, O_wrong_size, O_missing, O_unexpected, O_first_bad, VP_OUT_N };
VP_C_BEGIN
extern CK_ULONG vp_in[VP_IN_N];
extern CK_ULONG vp_out[VP_OUT_N];
VP_C_END
#define IN(x) vp_in[(int)I_##x]
#define OUT(x) vp_out[(int)O_##x]
#endif
