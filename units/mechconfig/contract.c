/* C17 ("for any byte content of the configuration file ... every call returns a PKCS#11 return code ... never terminates or
 * aborts the process") and C07 (the configured list is what slots.mechanisms says), for the parser of slots.mechanisms,
 * SoftHSM::prepareSupportedMecahnisms.  BOUNDED NATIVE STAND-IN, not a proof: the function is outside cbmc's reach
 * (DESIGN.md 4/C17); units/mechconfig/wrap.cpp enumerates the stated grammar and keeps these summaries. */
#include "shared.h"
CK_ULONG vp_in[VP_IN_N];
CK_ULONG vp_out[VP_OUT_N];
void vp_mechconf(void)
__CPROVER_requires(OUT(inputs) == 0)
/* no configuration value lets an exception escape (the C_* barrier would turn it into exit()) */
__CPROVER_ensures(OUT(escaped) == 0)
/* the configured list: positive list = exactly the valid names given; negative list = the table without them; unknown, empty and blank items are ignored
 * (values containing a name with blanks around it are exempt: trimming them or not are both acceptable readings) */
__CPROVER_ensures(OUT(wrong_size) == 0)
__CPROVER_ensures(OUT(missing) == 0 && OUT(unexpected) == 0)
__CPROVER_assigns(__CPROVER_object_whole(vp_out));
void vp_call_mechconf(void) { vp_mechconf(); }
void h_mechconf(void) { vp_call_mechconf(); }
