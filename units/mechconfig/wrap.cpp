// Bounded native stand-in for SoftHSM::prepareSupportedMecahnisms (the parser of slots.mechanisms): std::string,
// std::map<std::string,...> and try/catch code that cbmc's C++ front end cannot take.  The real function text is compiled
// by g++ and run on EVERY configuration value of the grammar below; after each run the result is compared with an
// independent specification of the documented syntax ("ALL" | ["-"] name {"," name}).
#include "config.h"

#include "Configuration.h"
#include "shared.h"
#ifdef VP_NATIVE
#include <string>
#include <vector>
#include <algorithm>
#include <stdio.h>
static std::string vp_conf_value;
static long vp_conf_store[8];
Configuration* Configuration::i() { return (Configuration*)(void*)&vp_conf_store[0]; }
std::string Configuration::getString(std::string, std::string) { return vp_conf_value; }

// the items a list is built from: valid names, an unknown name, empty and blank items, names with blanks around them
static const char* ITEMS[] = { "CKM_MD5", "CKM_SHA256", "CKM_AES_KEY_GEN", "CKM_BOGUS", "", " ", " CKM_MD5", "CKM_SHA256 ", "ALL" };
#define NITEMS 9
#define MAXLEN 3
static bool is_valid(const std::string& it, CK_MECHANISM_TYPE& m)
{
	if (it == "CKM_MD5") { m = CKM_MD5; return true; }
	if (it == "CKM_SHA256") { m = CKM_SHA256; return true; }
	if (it == "CKM_AES_KEY_GEN") { m = CKM_AES_KEY_GEN; return true; }
	return false;
}
static void one(const std::string& value, bool negative, const std::vector<std::string>& items)
{
	OUT(inputs)++;
	typedef SoftHSM vp_hsm_t;
	SoftHSM* hsm = VP_RAW_NEW(vp_hsm_t);
	VP_INIT_CONTAINER(hsm->supportedMechanisms);
	std::map<std::string, CK_MECHANISM_TYPE> t;
	vp_conf_value = value;
	try { hsm->prepareSupportedMecahnisms(t); }
	catch (...) { if (!OUT(escaped)) { OUT(first_bad) = OUT(inputs); printf("VP_ENUM_FAIL exception escapes for slots.mechanisms = '%s'\n", value.c_str()); } OUT(escaped)++; return; }
	// a name with blanks around it may legitimately be read either way (as an unknown name, or trimmed): for such values only
	// "no exception escapes" is checked
	for (size_t i = 0; i < items.size(); i++)
	{
		const std::string& it = items[i];
		size_t a = it.find_first_not_of(" \t"), b = it.find_last_not_of(" \t");
		if (a != std::string::npos && (a != 0 || b != it.size() - 1)) { hsm->supportedMechanisms.~list(); ::operator delete((void*)hsm); return; }
	}
	// specification: the configured list is (positive) exactly the valid names given, in order, or (negative) the whole table without them
	std::vector<CK_MECHANISM_TYPE> named;
	for (size_t i = 0; i < items.size(); i++) { CK_MECHANISM_TYPE m; if (is_valid(items[i], m)) named.push_back(m); }
	std::list<CK_MECHANISM_TYPE>& got = hsm->supportedMechanisms;
	size_t expect;
	if (value == "ALL") expect = t.size();
	else if (!negative) expect = named.size();
	else { std::vector<CK_MECHANISM_TYPE> d = named; std::sort(d.begin(), d.end()); d.erase(std::unique(d.begin(), d.end()), d.end()); expect = t.size() - d.size(); }
	bool bad = false;
	if (got.size() != expect || hsm->nrSupportedMechanisms != got.size()) { OUT(wrong_size)++; bad = true; }
	if (value != "ALL")
		for (size_t i = 0; i < named.size(); i++)
		{
			bool in = std::find(got.begin(), got.end(), named[i]) != got.end();
			if (!negative && !in) { OUT(missing)++; bad = true; }
			if (negative && in) { OUT(unexpected)++; bad = true; }
		}
	if (bad && !OUT(first_bad)) { OUT(first_bad) = OUT(inputs); printf("VP_ENUM_FAIL wrong list for slots.mechanisms = '%s' (size %zu, expected %zu)\n", value.c_str(), got.size(), expect); }
	got.~list();
	::operator delete((void*)hsm);
}
static void rec(std::vector<std::string>& items, bool negative, size_t len)
{
	if (items.size() == len)
	{
		if (len == 0 && !negative) return;
		std::string v = negative ? "-" : "";
		for (size_t i = 0; i < items.size(); i++) { if (i) v += ","; v += items[i]; }
		if (v.empty() || v == "ALL" ) { if (v == "ALL" && !negative) one(v, false, items); return; }
		if (v[0] == '-' && !negative) return;            // (would be read as a negative list: enumerated as such)
		// "ALL" inside a list is just an unknown name
		one(v, negative, items);
		return;
	}
	for (int k = 0; k < NITEMS; k++) { items.push_back(ITEMS[k]); rec(items, negative, len); items.pop_back(); }
}
extern "C" void vp_mechconf(void)
{
	for (int neg = 0; neg <= 1; neg++)
		for (size_t len = 0; len <= MAXLEN; len++) { std::vector<std::string> items; rec(items, neg != 0, len); }
	// trailing and leading commas
	{ std::vector<std::string> it; it.push_back("CKM_MD5"); it.push_back(""); one("CKM_MD5,", false, it); one("-CKM_MD5,", true, it); }
	printf("VP_ENUM inputs=%lu\n", OUT(inputs));
}
#else
extern "C" void vp_mechconf(void) {}
#endif
