#ifndef VP_UNW_SHARED_H
#define VP_UNW_SHARED_H
#include "softhsm_env.h"
#define VP_T3 3
enum vp_in_idx { I_unwrap_rv, I_keylen, I_create_rv, I_newValid, I_setpk_ok, I_phNull, I_wlen, VP_IN_N };
enum vp_out_idx { O_unwrap_n, O_unwrap_sym, O_create_n, O_create_op, O_create_count, O_setpk_n, O_setpk_priv, O_h, VP_OUT_N };
VP_C_BEGIN
extern CK_ULONG vp_in[VP_IN_N];
extern CK_ULONG vp_in_t3[VP_T3 * 3];
extern unsigned char vp_in_keybytes[8];
extern CK_ULONG vp_out[VP_OUT_N];
VP_C_END
#define IN(x) vp_in[(int)I_##x]
#define OUT(x) vp_out[(int)O_##x]
#define T3(i, f) vp_in_t3[(i) * 3 + (f)]
#define VP_NEW_HANDLE 777UL
#endif
