/* SoftHSM::C_UnwrapKey, whole function.  C08: an unwrapped key - secret OR private - is marked not local, not
 * always-sensitive, not never-extractable.  C09: when the call fails after the object was created, the object and its
 * handle are removed again and *phKey is CK_INVALID_HANDLE.  C06: the value of a private secret key is stored as the
 * output of Token::encrypt.  C01: no private object outside a user session, no token object through a RO session -
 * decided BEFORE the blob is unwrapped. */
#include "shared.h"
CK_ULONG vp_in[VP_IN_N];
CK_ULONG vp_in_t3[VP_T3 * 3];
unsigned char vp_in_keybytes[8];
CK_ULONG vp_out[VP_OUT_N];
CK_RV vp_rv;
VP_SOFTHSM_CALLEE_CONTRACTS

#define NT (SES(TCOUNT) < VP_T3 ? SES(TCOUNT) : VP_T3)
static int t_has(CK_ATTRIBUTE_TYPE t, CK_ULONG len) { for (CK_ULONG i = 0; i < VP_T3; i++) if (i < NT && T3(i, 0) == t && T3(i, 1) == len) return 1; return 0; }
static CK_ULONG t_val(CK_ATTRIBUTE_TYPE t, CK_ULONG len, CK_ULONG dflt) { CK_ULONG v = dflt; for (CK_ULONG i = 0; i < VP_T3; i++) if (i < NT && T3(i, 0) == t && T3(i, 1) == len) v = T3(i, 2); return v; }
static CK_ULONG t_class(void) { return t_val(CKA_CLASS, 8, CKO_DATA); }
static int t_token(void) { return (t_val(CKA_TOKEN, 1, 0) & 0xff) != 0; }
static int t_private(void) { if (t_has(CKA_PRIVATE, 1)) return (t_val(CKA_PRIVATE, 1, 1) & 0xff) != 0; return !(t_class() == CKO_CERTIFICATE || t_class() == CKO_PUBLIC_KEY); }
static int log_set_bool(CK_ATTRIBUTE_TYPE type, CK_ULONG v)
{
  for (CK_ULONG i = 0; i < VP_LOG_MAX; i++) if (i < CNT(LOG) && LOGF(i, KIND) == E_SET_BOOL && LOGF(i, OBJ) == 2 && LOGF(i, TYPE) == type && LOGF(i, VAL) == v) return 1;
  return 0;
}
/* the CKA_VALUE record of the new object, -1 if none */
static long log_value_idx(void)
{
  for (CK_ULONG i = 0; i < VP_LOG_MAX; i++) if (i < CNT(LOG) && LOGF(i, KIND) == E_SET_BYTES && LOGF(i, OBJ) == 2 && LOGF(i, TYPE) == CKA_VALUE) return (long)i;
  return -1;
}

#define RV __CPROVER_return_value
#define K0 VP_OBJ_OF(SES(HARG0))
#define CREATED (SFX(CREATE_N) > 0)

CK_RV vp_unwrap(void)
__CPROVER_requires(VP_FRESH_GHOST && !(TOK(SO) && TOK(USER)) && (!TOK(SO) || SES(RW)) && SES(HOBJ0) != SES(HOBJ1) && SES(HOBJ0) != VP_NEW_HANDLE && SES(HOBJ1) != VP_NEW_HANDLE)
__CPROVER_requires(SES(TCOUNT) <= VP_T3 && IN(wlen) <= 16 && OUT(unwrap_n) == 0 && OUT(create_n) == 0 && OUT(setpk_n) == 0 && !IN(phNull) && !SES(NULL_OUT))
/* C01: decided before any cryptography */
__CPROVER_ensures((t_private() && !VP_SES_USER) ==> (RV != CKR_OK && OUT(unwrap_n) == 0 && OUT(create_n) == 0))
__CPROVER_ensures((t_token() && !SES(RW)) ==> (RV != CKR_OK && OUT(unwrap_n) == 0 && OUT(create_n) == 0))
/* only secret and private keys can be unwrapped; the object is made with OBJECT_OP_UNWRAP, after a successful unwrap */
__CPROVER_ensures((OUT(create_n) > 0) ==> (OUT(create_n) == 1 && OUT(create_op) == 0x6 && OUT(unwrap_n) == 1 && IN(unwrap_rv) == CKR_OK && (t_class() == CKO_SECRET_KEY || t_class() == CKO_PRIVATE_KEY)))
/* C08: history attributes of every unwrapped key */
__CPROVER_ensures((RV == CKR_OK) ==> (CREATED && log_set_bool(CKA_LOCAL, 0) && log_set_bool(CKA_ALWAYS_SENSITIVE, 0) && log_set_bool(CKA_NEVER_EXTRACTABLE, 0) && CNT(TX_COMMIT) == 1 && OUT(h) == VP_NEW_HANDLE))
/* C06: a private secret key's value is stored encrypted (or not at all) */
__CPROVER_ensures((RV == CKR_OK && t_class() == CKO_SECRET_KEY) ==> (log_value_idx() >= 0))
__CPROVER_ensures((RV == CKR_OK && t_class() == CKO_SECRET_KEY && t_private() && log_value_idx() >= 0) ==> (LOGF(log_value_idx(), PROV) == 1 || LOGF(log_value_idx(), VAL) == 0))
__CPROVER_ensures((RV == CKR_OK && t_class() == CKO_PRIVATE_KEY) ==> (OUT(setpk_n) == 1 && OUT(setpk_priv) == (CK_ULONG)t_private()))
/* C09: a failure after creation removes object and handle again */
__CPROVER_ensures((RV != CKR_OK && CREATED && SES(NEW_RESOLVES)) ==> (SFX(HM_DESTROY_N) == 1 && SFX(HM_DESTROY_H) == VP_NEW_HANDLE && CNT(DESTROY) == 1 && OUT(h) == CK_INVALID_HANDLE))
__CPROVER_ensures((RV != CKR_OK && CREATED) ==> (SFX(HM_DESTROY_N) == 1 && OUT(h) == CK_INVALID_HANDLE))
__CPROVER_ensures((RV != CKR_OK) ==> (OUT(h) == CK_INVALID_HANDLE || OUT(unwrap_n) == 0))
__CPROVER_ensures((RV == CKR_OK) ==> (SFX(HM_DESTROY_N) == 0 && CNT(DESTROY) == 0))
__CPROVER_assigns(__CPROVER_object_whole(vp_out), VP_SOFTHSM_FRAME);

void vp_call_C_UnwrapKey(void) { vp_rv = vp_unwrap(); }
void h_unwrap(void)
{
  VP_HAVOC_SOFTHSM(); __CPROVER_havoc_object(vp_in); __CPROVER_havoc_object(vp_in_t3); __CPROVER_havoc_object(vp_in_keybytes);
  vp_call_C_UnwrapKey();
  VP_COVER(vp_rv == CKR_OK && t_class() == CKO_SECRET_KEY && t_private() && SES(MECH) == CKM_RSA_PKCS);
  VP_COVER(vp_rv == CKR_OK && t_class() == CKO_PRIVATE_KEY && SES(MECH) == CKM_AES_CBC_PAD);
  VP_COVER(vp_rv == CKR_FUNCTION_FAILED && CREATED && OUT(setpk_n) == 1);
  VP_COVER(vp_rv == CKR_USER_NOT_LOGGED_IN && K0 < VP_NOBJ);
  VP_COVER(vp_rv != CKR_OK && OUT(unwrap_n) == 1 && OUT(create_n) == 0);
}
