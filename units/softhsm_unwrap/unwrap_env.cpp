// environment of SoftHSM::C_UnwrapKey (same translation unit as the sliced SoftHSM.cpp under cbmc)
#include "shared.h"

CK_RV SoftHSM::UnwrapKeySym(CK_MECHANISM_PTR, ByteString&, Token*, OSObject*, ByteString& keydata)
{
	OUT(unwrap_n)++; OUT(unwrap_sym) = 1;
	if (IN(unwrap_rv) != CKR_OK) return IN(unwrap_rv);
	CK_ULONG len = IN(keylen) > 8 ? 8 : IN(keylen);
	ByteString v(vp_in_keybytes, len);
	keydata = v;
	return CKR_OK;
}
CK_RV SoftHSM::UnwrapKeyAsym(CK_MECHANISM_PTR, ByteString&, Token*, OSObject*, ByteString& keydata)
{
	OUT(unwrap_n)++; OUT(unwrap_sym) = 0;
	if (IN(unwrap_rv) != CKR_OK) return IN(unwrap_rv);
	CK_ULONG len = IN(keylen) > 8 ? 8 : IN(keylen);
	ByteString v(vp_in_keybytes, len);
	keydata = v;
	return CKR_OK;
}
// CreateObject through its interface (unit softhsm_create): success = one new object (environment object 2) under a fresh handle
CK_RV SoftHSM::CreateObject(CK_SESSION_HANDLE, CK_ATTRIBUTE_PTR, CK_ULONG ulCount, CK_OBJECT_HANDLE_PTR phObject, int op)
{
	OUT(create_n)++; OUT(create_op) = (CK_ULONG)op; OUT(create_count) = ulCount;
	if (IN(create_rv) != CKR_OK) return IN(create_rv);
	SFX(CREATE_N)++;
	*phObject = VP_NEW_HANDLE;
	return CKR_OK;
}
static bool setpk(bool isPrivate) { OUT(setpk_n)++; OUT(setpk_priv) = isPrivate; return IN(setpk_ok) != 0; }
bool SoftHSM::setRSAPrivateKey(OSObject*, const ByteString&, Token*, bool isPrivate) const { return setpk(isPrivate); }
bool SoftHSM::setDSAPrivateKey(OSObject*, const ByteString&, Token*, bool isPrivate) const { return setpk(isPrivate); }
bool SoftHSM::setDHPrivateKey(OSObject*, const ByteString&, Token*, bool isPrivate) const { return setpk(isPrivate); }
bool SoftHSM::setECPrivateKey(OSObject*, const ByteString&, Token*, bool isPrivate) const { return setpk(isPrivate); }
bool SoftHSM::setEDPrivateKey(OSObject*, const ByteString&, Token*, bool isPrivate) const { return setpk(isPrivate); }

extern "C" CK_RV vp_unwrap(void)
{
	VP_MK_HSM(); VP_MK_MECH();
	CK_ATTRIBUTE tmpl[VP_T3]; CK_ULONG tvals[VP_T3];
	for (int ti = 0; ti < VP_T3; ti++) { tvals[ti] = T3(ti, 2); tmpl[ti].type = T3(ti, 0); tmpl[ti].ulValueLen = T3(ti, 1); tmpl[ti].pValue = (CK_VOID_PTR)&tvals[ti]; }
	unsigned char wrapped[16];
	CK_OBJECT_HANDLE h = 0;
	CK_RV rv = hsm->C_UnwrapKey(SES(HSESSION), pMech, SES(HARG0), &wrapped[0], IN(wlen), SES(NULL_OUT) ? (CK_ATTRIBUTE_PTR)0 : &tmpl[0], SES(TCOUNT), IN(phNull) ? (CK_OBJECT_HANDLE_PTR)0 : &h);
	OUT(h) = h;
	return rv;
}
