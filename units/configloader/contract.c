/* C17 "for any byte content of the configuration file ... every call returns; the library never dereferences a null
 * pointer": SimpleConfigLoader::loadConfiguration / trimString over every file of <= 2 lines of <= 7 arbitrary bytes.
 * Memory-safety obligations (pointer checks in the sliced text and in the executed std::string stub) are the main
 * content; the functional clauses say what reaches Configuration: only non-empty, trimmed names and values. */
#include "shared.h"
CK_ULONG vp_in[VP_IN_N];
char vp_in_lines[2 * VP_LINE_MAX];
CK_ULONG vp_out[VP_OUT_N];
CK_RV vp_rv;
#define T(i) vp_in_lines[i]
/* spec of trimming the NUL-terminated text in line 0 (the last cell is forced to NUL) */
static long t_len(void) { long n = 0; while (n < VP_LINE_MAX - 1 && T(n) != 0) n++; return n; }
static long t_start(void) { long s = 0; long n = t_len(); while (s < n && VP_IS_SPACE(T(s))) s++; return s; }
static long t_end(void) { long e = t_len() - 1; long s = t_start(); while (e >= s && VP_IS_SPACE(T(e))) e--; return e; }
void vp_trimString(void)
__CPROVER_requires(1)
__CPROVER_ensures(IN(textNull) ==> OUT(trim_null))
/* NULL iff nothing but white space; otherwise a fresh NUL-terminated copy of exactly text[start..end] */
__CPROVER_ensures(!IN(textNull) ==> (OUT(trim_null) == (t_end() < t_start())))
__CPROVER_ensures((!IN(textNull) && t_end() >= t_start()) ==> (OUT(trim_len) == (CK_ULONG)(t_end() - t_start() + 1) && OUT(trim_0) == (unsigned char)T(t_start()) && OUT(trim_l) == (unsigned char)T(t_end())))
__CPROVER_assigns(__CPROVER_object_whole(vp_out));

void vp_loadConfiguration(void)
__CPROVER_requires(vp_g_fgets_n == 0 && OUT(set_n) == 0 && OUT(fclose_n) == 0 && IN(nlines) <= 2 && IN(type) <= 0xffff)   /* the type is an int */
__CPROVER_ensures(IN(fopenFails) ==> (OUT(ret) == 0 && OUT(set_n) == 0 && vp_g_fgets_n == 0))
/* every line is consumed (fgets is called until it reports the end), the file is closed once, the call succeeds whatever the content */
__CPROVER_ensures(!IN(fopenFails) ==> (OUT(ret) == 1 && vp_g_fgets_n == IN(nlines) + 1 && OUT(fclose_n) == 1))
/* what reaches the configuration: non-empty trimmed name; strings: non-empty trimmed value */
__CPROVER_ensures((OUT(set_n) > 0) ==> (OUT(nlen) >= 1 && !VP_IS_SPACE((char)OUT(n0)) && !VP_IS_SPACE((char)OUT(nl)) && OUT(n0) != '#' && OUT(n0) != '='))
__CPROVER_ensures((OUT(set_n) > 0 && OUT(set_kind) == 1) ==> (OUT(vlen) >= 1 && !VP_IS_SPACE((char)OUT(v0)) && !VP_IS_SPACE((char)OUT(vl))))
__CPROVER_ensures(OUT(set_n) <= IN(nlines))
__CPROVER_ensures((IN(type) == 0 || IN(type) > 4) ==> (OUT(set_n) == 0))
__CPROVER_assigns(__CPROVER_object_whole(vp_out), vp_g_fgets_n);

#define HAV() do { __CPROVER_havoc_object(vp_in); __CPROVER_havoc_object(vp_in_lines); } while (0)
void vp_call_trimString(void) { vp_trimString(); }
void h_trimString(void) { HAV(); vp_call_trimString(); VP_COVER(!OUT(trim_null) && OUT(trim_len) == 7); VP_COVER(OUT(trim_null) && !IN(textNull) && t_len() == 3); VP_COVER(!OUT(trim_null) && OUT(trim_len) == 1 && t_len() == 5); VP_COVER(OUT(trim_null) && t_len() == 0); }
void vp_call_loadConfiguration(void) { vp_loadConfiguration(); }
void h_loadConfiguration(void) { HAV(); vp_call_loadConfiguration(); VP_COVER(OUT(set_n) == 2 && OUT(set_kind) == 1 && OUT(vlen) == 3); VP_COVER(OUT(ret) == 1 && IN(nlines) == 2 && OUT(set_n) == 0 && T(0) == 'a' && T(1) == '=' && T(2) == ' ' && T(3) == 0);
  VP_COVER(OUT(set_n) == 1 && OUT(set_kind) == 3 && OUT(vlen) == 1); VP_COVER(OUT(set_n) == 1 && OUT(set_kind) == 2); VP_COVER(OUT(ret) == 0); }
