#ifndef VP_CFG_SHARED_H
#define VP_CFG_SHARED_H
#include "vp.h"
#ifndef VP_LINE_MAX
#define VP_LINE_MAX 8
#endif
enum vp_in_idx { I_fopenFails, I_nlines, I_type, I_textNull, VP_IN_N };
/* set* calls: number; of the last one: kind (1 string 2 int 3 bool), name length, first/last char of name, value length, first/last char of value */
enum vp_out_idx { O_ret, O_set_n, O_set_kind, O_nlen, O_n0, O_nl, O_vlen, O_v0, O_vl, O_fclose_n, O_trim_null, O_trim_len, O_trim_0, O_trim_l, O_trim_term, VP_OUT_N };
VP_C_BEGIN
extern CK_ULONG vp_in[VP_IN_N];
extern char vp_in_lines[2 * VP_LINE_MAX];     /* two ghost lines; the harness forces a NUL into the last cell of each */
extern CK_ULONG vp_out[VP_OUT_N];
extern CK_ULONG vp_g_fgets_n;
VP_C_END
#define IN(x) vp_in[(int)I_##x]
#define OUT(x) vp_out[(int)O_##x]
#define VP_IS_SPACE(c) ((c) == ' ' || (c) == '\t' || (c) == '\n' || (c) == '\v' || (c) == '\f' || (c) == '\r')
#endif
