// (cbmc: included at the end of the sliced SimpleConfigLoader.cpp)
#include <string.h>
#include <stdlib.h>
#include "config.h"
#include "SimpleConfigLoader.h"
#include "shared.h"
static long vp_conf_store[8];
Configuration* Configuration::i() { return (Configuration*)(void*)&vp_conf_store[0]; }
int Configuration::getType(std::string) { return (int)IN(type); }
static void rec(CK_ULONG kind, const std::string& k, CK_ULONG vlen, char v0, char vl)
{
	OUT(set_n)++; OUT(set_kind) = kind; OUT(nlen) = k.size(); OUT(n0) = k.size() ? (unsigned char)k[0] : 0; OUT(nl) = k.size() ? (unsigned char)k[k.size() - 1] : 0;
	OUT(vlen) = vlen; OUT(v0) = (unsigned char)v0; OUT(vl) = (unsigned char)vl;
}
void Configuration::setString(std::string key, std::string value) { rec(1, key, value.size(), value.size() ? value[0] : 0, value.size() ? value[value.size() - 1] : 0); }
void Configuration::setInt(std::string key, int) { rec(2, key, 0, 0, 0); }
void Configuration::setBool(std::string key, bool v) { rec(3, key, v ? 1 : 0, 0, 0); }

extern "C" void vp_loadConfiguration(void)
{
	long l_store[4]; SimpleConfigLoader* l = (SimpleConfigLoader*)(void*)&l_store[0];
	vp_g_fgets_n = 0;   // (a constant, so that cbmc sees the end of the ghost file after two lines)
	OUT(ret) = l->loadConfiguration() ? 1 : 0;
}
extern "C" void vp_trimString(void)
{
	long l_store[4]; SimpleConfigLoader* l = (SimpleConfigLoader*)(void*)&l_store[0];
	char text[VP_LINE_MAX];
	for (int i = 0; i < VP_LINE_MAX; i++) text[i] = vp_in_lines[i];
	text[VP_LINE_MAX - 1] = 0;
	char* r = l->trimString(IN(textNull) ? (char*)0 : &text[0]);
	OUT(trim_null) = r == NULL;
	OUT(trim_len) = 0; OUT(trim_0) = 0; OUT(trim_l) = 0;
	if (r != NULL) { size_t n = strlen(r); OUT(trim_len) = n; OUT(trim_0) = (unsigned char)r[0]; OUT(trim_l) = n ? (unsigned char)r[n - 1] : 0; free(r); }
}
