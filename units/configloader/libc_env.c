/* libc as the configuration loader sees it: a ghost file of two lines and plain C definitions of the string helpers */
#include <stddef.h>
#include "shared.h"
CK_ULONG vp_g_fgets_n;
static int vp_file_token;
void* fopen(const char* path, const char* mode) { (void)path; (void)mode; return IN(fopenFails) ? (void*)0 : (void*)&vp_file_token; }
int fclose(void* f) { (void)f; OUT(fclose_n)++; return 0; }
char* fgets(char* buf, int size, void* f)
{
	(void)f;
	/* (the call counter advances unconditionally, so that it stays a constant for cbmc and the third call is the end of file for certain) */
	CK_ULONG k = vp_g_fgets_n;
	vp_g_fgets_n = k + 1;
	if (k >= 2 || k >= IN(nlines) || size < VP_LINE_MAX) return (char*)0;
	for (int i = 0; i < VP_LINE_MAX; i++) buf[i] = vp_in_lines[k * VP_LINE_MAX + i];
	buf[VP_LINE_MAX - 1] = 0;
	return buf;
}
size_t strlen(const char* s) { size_t n = 0; while (s[n] != 0) n++; return n; }
static int in_set(char c, const char* set) { for (size_t i = 0; set[i] != 0; i++) if (set[i] == c) return 1; return 0; }
size_t strcspn(const char* s, const char* reject) { size_t n = 0; while (s[n] != 0 && !in_set(s[n], reject)) n++; return n; }
static char* vp_strtok_save;
char* strtok(char* s, const char* delim)
{
	if (s == (char*)0) s = vp_strtok_save;
	if (s == (char*)0) return (char*)0;
	while (*s != 0 && in_set(*s, delim)) s++;
	if (*s == 0) { vp_strtok_save = (char*)0; return (char*)0; }
	char* tok = s;
	while (*s != 0 && !in_set(*s, delim)) s++;
	if (*s == 0) vp_strtok_save = (char*)0; else { *s = 0; vp_strtok_save = s + 1; }
	return tok;
}
int isspace(int c) { return VP_IS_SPACE(c); }
int tolower(int c) { return (c >= 'A' && c <= 'Z') ? c + 32 : c; }
int atoi(const char* s) { int v = 0; for (size_t i = 0; s[i] >= '0' && s[i] <= '9'; i++) v = v * 10 + (s[i] - '0'); return v; }
long strtol(const char* s, char** end, int base) { (void)end; long v = 0; for (size_t i = 0; s[i] >= '0' && s[i] < '0' + base; i++) v = v * base + (s[i] - '0'); return v; }
int strcmp(const char* a, const char* b) { size_t i = 0; while (a[i] != 0 && a[i] == b[i]) i++; return (int)(unsigned char)a[i] - (int)(unsigned char)b[i]; }
