#ifndef VP_FC_SHARED_H
#define VP_FC_SHARED_H
#include "stdio_ghost.h"
enum vp_in_idx { I_valid, I_val, I_k, I_blen, VP_IN_N };
enum vp_out_idx { O_ret, O_val, O_pos0, O_len0, O_size, O_byte_k, O_file_k, VP_OUT_N };
VP_C_BEGIN
extern CK_ULONG vp_in[VP_IN_N];
extern unsigned char vp_in_bs[16];
extern unsigned char vp_in_file0[VP_FILE_MAX];   /* copy of the initial file content */
extern CK_ULONG vp_out[VP_OUT_N];
VP_C_END
#define IN(x) vp_in[(int)I_##x]
#define OUT(x) vp_out[(int)O_##x]
#endif
