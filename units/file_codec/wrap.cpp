#include "config.h"
#include "File.h"
#include "shared.h"

#define MK long f_store[(sizeof(File) + 7) / 8 + 1]; File* f = (File*)(void*)&f_store[0]; f->valid = IN(valid) != 0; f->stream = (FILE*)(void*)&f_store[0]; \
	OUT(pos0) = FST(POS); OUT(len0) = FST(LEN); for (int i = 0; i < VP_FILE_MAX; i++) vp_in_file0[i] = vp_in_file[i]

extern "C" void vp_writeULong(void) { MK; OUT(ret) = f->writeULong(IN(val)) ? 1 : 0; }
extern "C" void vp_readULong(void) { MK; unsigned long v = 0; OUT(ret) = f->readULong(v) ? 1 : 0; OUT(val) = v; }
extern "C" void vp_writeBool(void) { MK; OUT(ret) = f->writeBool(IN(val) != 0) ? 1 : 0; }
extern "C" void vp_readBool(void) { MK; bool v = false; OUT(ret) = f->readBool(v) ? 1 : 0; OUT(val) = v ? 1 : 0; }
extern "C" void vp_writeBS(void) { MK; ByteString b(vp_in_bs, IN(blen)); OUT(ret) = f->writeByteString(b) ? 1 : 0; }
extern "C" void vp_readBS(void)
{
	MK; ByteString b;
	OUT(ret) = f->readByteString(b) ? 1 : 0;
	OUT(size) = b.size();
	CK_ULONG k2 = IN(val) % 16;
	OUT(byte_k) = k2 < b.size() ? b[k2] : 0;
}
