/* C05 (stable on-disk encoding, decode o encode = id) and C17 (arbitrary file content is parsed safely): the scalar
 * and byte-string codecs of File.cpp over a ghost file.  The encodings are written here as LITERAL formats - big-endian
 * 8-byte fields, booleans as one byte 0xFF/0x00, byte strings as BE8(length) followed by the bytes - so that a
 * symmetric change of reader and writer still fails. */
#include "shared.h"
CK_ULONG vp_in[VP_IN_N];
unsigned char vp_in_bs[16];
unsigned char vp_in_file0[VP_FILE_MAX];
CK_ULONG vp_out[VP_OUT_N];
CK_RV vp_rv;

#define P0 OUT(pos0)
#define K IN(k)
#define BE8(v, k) ((unsigned char)(((v) >> (56 - 8 * (k))) & 0xff))
#define FILE_AT(i) vp_in_file[i]
/* big-endian value of the 8 bytes of the INITIAL file at offset p */
#define DEC8(p) (((CK_ULONG)vp_in_file0[(p)] << 56) | ((CK_ULONG)vp_in_file0[(p) + 1] << 48) | ((CK_ULONG)vp_in_file0[(p) + 2] << 40) | ((CK_ULONG)vp_in_file0[(p) + 3] << 32) | \
                 ((CK_ULONG)vp_in_file0[(p) + 4] << 24) | ((CK_ULONG)vp_in_file0[(p) + 5] << 16) | ((CK_ULONG)vp_in_file0[(p) + 6] << 8) | (CK_ULONG)vp_in_file0[(p) + 7])
#define PRE __CPROVER_requires(FST(LEN) <= VP_FILE_MAX && FST(POS) <= FST(LEN) && K < 8 && vp_g_fio[0] == 0 && vp_g_fio[1] == 0)
#define FRAME __CPROVER_assigns(__CPROVER_object_whole(vp_out), __CPROVER_object_whole(vp_in_file0), __CPROVER_object_whole(vp_in_file), __CPROVER_object_whole(vp_in_fst), __CPROVER_object_whole(vp_g_fio))
#define ROOM(n) (P0 + (n) <= VP_FILE_MAX)

void vp_writeULong(void)
PRE
__CPROVER_ensures((!IN(valid)) ==> (OUT(ret) == 0 && vp_g_fio[0] == 0))
/* success <=> the 8 bytes reached the file; they are the big-endian value */
__CPROVER_ensures((IN(valid) && !FST(WRITE_FAILS) && ROOM(8)) ==> (OUT(ret) == 1 && FST(POS) == P0 + 8 && FILE_AT(P0 + K) == BE8(IN(val), K)))
__CPROVER_ensures((OUT(ret) == 1) ==> (vp_g_fio[0] == 8))
__CPROVER_ensures((IN(valid) && (FST(WRITE_FAILS) || !ROOM(8))) ==> (OUT(ret) == 0))
FRAME;

void vp_readULong(void)
PRE
__CPROVER_ensures((IN(valid) && !FST(READ_FAILS) && P0 + 8 <= OUT(len0)) ==> (OUT(ret) == 1 && OUT(val) == DEC8(P0) && FST(POS) == P0 + 8))
__CPROVER_ensures((!IN(valid) || FST(READ_FAILS) || P0 + 8 > OUT(len0)) ==> (OUT(ret) == 0))
/* never reads beyond the end of the file */
__CPROVER_ensures(FST(POS) <= OUT(len0) && vp_g_fio[0] == 0)
FRAME;

void vp_writeBool(void)
PRE
__CPROVER_ensures((IN(valid) && !FST(WRITE_FAILS) && ROOM(1)) ==> (OUT(ret) == 1 && FST(POS) == P0 + 1 && FILE_AT(P0) == (IN(val) ? 0xFF : 0x00)))
__CPROVER_ensures((!IN(valid) || FST(WRITE_FAILS) || !ROOM(1)) ==> (OUT(ret) == 0))
FRAME;

void vp_readBool(void)
PRE
__CPROVER_ensures((IN(valid) && !FST(READ_FAILS) && P0 + 1 <= OUT(len0)) ==> (OUT(ret) == 1 && OUT(val) == (vp_in_file0[P0] != 0) && FST(POS) == P0 + 1))
__CPROVER_ensures((!IN(valid) || FST(READ_FAILS) || P0 + 1 > OUT(len0)) ==> (OUT(ret) == 0))
__CPROVER_ensures(FST(POS) <= OUT(len0))
FRAME;

/* byte string of IN(blen) <= 16 bytes; witness byte index K2 over the payload */
#define BL IN(blen)
#define K2 (IN(val) % 16)
void vp_writeBS(void)
PRE
__CPROVER_requires(BL <= 16)
__CPROVER_ensures((IN(valid) && !FST(WRITE_FAILS) && ROOM(8 + BL)) ==> (OUT(ret) == 1 && FST(POS) == P0 + 8 + BL && FILE_AT(P0 + K) == BE8(BL, K)))
__CPROVER_ensures((IN(valid) && !FST(WRITE_FAILS) && ROOM(8 + BL) && K2 < BL) ==> (FILE_AT(P0 + 8 + K2) == vp_in_bs[K2]))
__CPROVER_ensures((!IN(valid) || FST(WRITE_FAILS) || !ROOM(8 + BL)) ==> (OUT(ret) == 0))
FRAME;

void vp_readBS(void)
PRE
/* a well-formed record: length field + that many bytes inside the file */
__CPROVER_ensures((IN(valid) && !FST(READ_FAILS) && P0 + 8 <= OUT(len0) && DEC8(P0) <= OUT(len0) - P0 - 8) ==> \
                  (OUT(ret) == 1 && OUT(size) == DEC8(P0) && FST(POS) == P0 + 8 + DEC8(P0) && (K2 >= OUT(size) || OUT(byte_k) == vp_in_file0[P0 + 8 + K2])))
/* anything else is rejected (truncated record, length field pointing beyond the file) */
__CPROVER_ensures((!IN(valid) || FST(READ_FAILS) || P0 + 8 > OUT(len0) || DEC8(P0) > OUT(len0) - P0 - 8) ==> (OUT(ret) == 0))
__CPROVER_ensures(FST(POS) <= OUT(len0))
FRAME;

#define HAVOC() do { __CPROVER_havoc_object(vp_in); __CPROVER_havoc_object(vp_in_bs); __CPROVER_havoc_object(vp_in_file); __CPROVER_havoc_object(vp_in_fst); } while (0)
#define H(n, f, c1, c2) void vp_call_##n(void) { f(); } void h_##n(void) { HAVOC(); vp_call_##n(); VP_COVER(c1); VP_COVER(c2); }
H(writeULong, vp_writeULong, OUT(ret) == 1 && P0 == 56, OUT(ret) == 0 && IN(valid))
H(readULong, vp_readULong, OUT(ret) == 1 && OUT(val) == 0x0102030405060708UL, OUT(ret) == 0 && IN(valid) && !FST(READ_FAILS))
H(writeBool, vp_writeBool, OUT(ret) == 1 && IN(val), OUT(ret) == 0)
H(readBool, vp_readBool, OUT(ret) == 1 && OUT(val), OUT(ret) == 0 && IN(valid))
H(writeBS, vp_writeBS, OUT(ret) == 1 && BL == 16, OUT(ret) == 1 && BL == 0)

void h_readBS(void) { HAVOC(); vp_readBS(); VP_COVER(OUT(ret) == 1 && OUT(size) == 20); VP_COVER(OUT(ret) == 1 && OUT(size) == 0); VP_COVER(OUT(ret) == 0 && IN(valid) && !FST(READ_FAILS) && P0 + 8 <= OUT(len0)); }
