#include "config.h"
#include "SoftHSM.h"
#include "softhsm_env.h"

extern "C" CK_RV vp_C_GetAttributeValue(void)
{
	VP_MK_HSM(); VP_MK_TMPL();
	return hsm->C_GetAttributeValue(SES(HSESSION), SES(HARG0), SES(NULL_OUT) ? (CK_ATTRIBUTE_PTR)0 : &tmpl[0], SES(TCOUNT));
}

extern "C" CK_RV vp_C_SetAttributeValue(void)
{
	VP_MK_HSM(); VP_MK_TMPL();
	return hsm->C_SetAttributeValue(SES(HSESSION), SES(HARG0), SES(NULL_OUT) ? (CK_ATTRIBUTE_PTR)0 : &tmpl[0], SES(TCOUNT));
}

extern "C" CK_RV vp_C_DestroyObject(void)
{
	VP_MK_HSM();
	return hsm->C_DestroyObject(SES(HSESSION), SES(HARG0));
}

extern "C" CK_RV vp_C_GetObjectSize(void)
{
	VP_MK_HSM();
	CK_ULONG size = 0;
	CK_RV rv = hsm->C_GetObjectSize(SES(HSESSION), SES(HARG0), SES(NULL_OUT) ? (CK_ULONG_PTR)0 : &size);
	SFX(OUT_WRITES) = size;
	return rv;
}

extern "C" CK_RV vp_C_DigestKey(void)
{
	VP_MK_HSM();
	return hsm->C_DigestKey(SES(HSESSION), SES(HARG0));
}

extern "C" CK_RV vp_C_WrapKey(void)
{
	VP_MK_HSM(); VP_MK_MECH();
	CK_ULONG len = SES(OUT_LEN);
	return hsm->C_WrapKey(SES(HSESSION), pMech, SES(HARG0), SES(HARG1), (CK_BYTE_PTR)0, SES(NULL_OUT) ? (CK_ULONG_PTR)0 : &len);
}

extern "C" CK_RV vp_C_CopyObject(void)
{
	VP_MK_HSM(); VP_MK_TMPL();
	CK_OBJECT_HANDLE hNew = 0;
	return hsm->C_CopyObject(SES(HSESSION), SES(HARG0), &tmpl[0], SES(TCOUNT), SES(NULL_OUT) ? (CK_OBJECT_HANDLE_PTR)0 : &hNew);
}

extern "C" CK_RV vp_C_UnwrapKey(void)
{
	VP_MK_HSM(); VP_MK_MECH(); VP_MK_TMPL();
	CK_OBJECT_HANDLE hNew = 0;
	unsigned char wrapped[8];
	return hsm->C_UnwrapKey(SES(HSESSION), pMech, SES(HARG0), &wrapped[0], SES(OUT_LEN), &tmpl[0], SES(TCOUNT), SES(NULL_OUT) ? (CK_OBJECT_HANDLE_PTR)0 : &hNew);
}

extern "C" CK_RV vp_C_DeriveKey(void)
{
	VP_MK_HSM(); VP_MK_MECH(); VP_MK_TMPL();
	CK_OBJECT_HANDLE hNew = 0;
	return hsm->C_DeriveKey(SES(HSESSION), pMech, SES(HARG0), &tmpl[0], SES(TCOUNT), SES(NULL_OUT) ? (CK_OBJECT_HANDLE_PTR)0 : &hNew);
}
