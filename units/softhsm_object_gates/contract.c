/* Object-handle taking entry points of SoftHSM.cpp: access matrix (C01), CKA_MODIFIABLE/COPYABLE/DESTROYABLE and
 * privacy-downgrade gates (C08), wrap refusal for unextractable / wrap-with-trusted keys (C02), usage flags of
 * wrap/unwrap/derive (C07), handle removal before destruction (C11). */
#include "softhsm_env.h"

CK_RV vp_rv;
VP_SOFTHSM_CALLEE_CONTRACTS

#define RV __CPROVER_return_value
#define K0 VP_OBJ_OF(SES(HARG0))
#define K1 VP_OBJ_OF(SES(HARG1))
#define OBJ_OK(K, H) ((H) != CK_INVALID_HANDLE && (K) < VP_NOBJ && OBJX(K, VALID))
#define REFUSED_CLEAN (RV != CKR_OK && VP_NO_EFFECT)
/* invariants of the session/login state machine (C03): never SO and user together; an SO session is read-write */
#define PRE __CPROVER_requires(VP_FRESH_GHOST && !(TOK(SO) && TOK(USER)) && (!TOK(SO) || SES(RW)) && SES(HOBJ0) != SES(HOBJ1) && SES(OPTYPE) <= 0x10)
#define BAD_CALL (!SES(INIT) || !SES(VALID))
#define FRAME __CPROVER_assigns(VP_SOFTHSM_FRAME)
/* the object is private and the normal user is not logged in */
#define PRIV_DENIED(K) (OBJB(K, PRIVATE) == 2 && !VP_SES_USER)
/* the object is a token object and the session is read-only */
#define RO_DENIED(K) (OBJB(K, TOKEN) == 2 && !SES(RW))

/* ---- C_GetAttributeValue: no attribute value of a private object leaves in a public or SO session */
CK_RV vp_C_GetAttributeValue(void)
PRE
__CPROVER_ensures((BAD_CALL || SES(NULL_OUT) || !OBJ_OK(K0, SES(HARG0))) ==> REFUSED_CLEAN)
__CPROVER_ensures((OBJ_OK(K0, SES(HARG0)) && PRIV_DENIED(K0)) ==> REFUSED_CLEAN)
__CPROVER_ensures((SFX(TAIL_N) == 0) ==> REFUSED_CLEAN)
FRAME;

/* ---- C_SetAttributeValue */
CK_RV vp_C_SetAttributeValue(void)
PRE
__CPROVER_ensures((BAD_CALL || SES(NULL_OUT) || !OBJ_OK(K0, SES(HARG0))) ==> REFUSED_CLEAN)
__CPROVER_ensures((OBJ_OK(K0, SES(HARG0)) && PRIV_DENIED(K0)) ==> REFUSED_CLEAN)
__CPROVER_ensures((OBJ_OK(K0, SES(HARG0)) && RO_DENIED(K0)) ==> REFUSED_CLEAN)
/* C08: an object with CKA_MODIFIABLE false cannot be changed */
__CPROVER_ensures((OBJ_OK(K0, SES(HARG0)) && OBJB(K0, MODIFIABLE) == 1) ==> REFUSED_CLEAN)
__CPROVER_ensures((SFX(TAIL_N) == 0) ==> REFUSED_CLEAN)
FRAME;

/* ---- C_DestroyObject (whole function) */
#define DESTROY_CLEAN (RV != CKR_OK && SFX(HM_DESTROY_N) == 0 && CNT(DESTROY) == 0 && CNT(SET) == 0 && CNT(DELETE) == 0)
CK_RV vp_C_DestroyObject(void)
PRE
__CPROVER_ensures((BAD_CALL || !OBJ_OK(K0, SES(HARG0))) ==> DESTROY_CLEAN)
__CPROVER_ensures((OBJ_OK(K0, SES(HARG0)) && PRIV_DENIED(K0)) ==> DESTROY_CLEAN)
__CPROVER_ensures((OBJ_OK(K0, SES(HARG0)) && RO_DENIED(K0)) ==> DESTROY_CLEAN)
/* C08: CKA_DESTROYABLE false */
__CPROVER_ensures((OBJ_OK(K0, SES(HARG0)) && OBJB(K0, DESTROYABLE) == 1) ==> DESTROY_CLEAN)
/* C11: the handle is forgotten (this very handle) whenever the object is destroyed, exactly once each */
__CPROVER_ensures((CNT(DESTROY) > 0) ==> (SFX(HM_DESTROY_N) == 1 && SFX(HM_DESTROY_H) == SES(HARG0) && CNT(DESTROY) == 1 && LOGF(0, OBJ) == K0))
__CPROVER_ensures((RV == CKR_OK) ==> (CNT(DESTROY) == 1 && SFX(HM_DESTROY_N) == 1))
__CPROVER_ensures(CNT(SET) == 0 && CNT(VALUE_READS) == 0)
FRAME;

/* ---- C_GetObjectSize: has no access gate; it reveals nothing: the only output is the constant */
CK_RV vp_C_GetObjectSize(void)
PRE
__CPROVER_ensures(VP_NO_EFFECT || (SFX(OUT_WRITES) == CK_UNAVAILABLE_INFORMATION))
__CPROVER_ensures(CNT(VALUE_READS) == 0 && CNT(DECRYPT) == 0 && CNT(SET) == 0 && SFX(HM_DESTROY_N) == 0 && CNT(DESTROY) == 0)
FRAME;

/* ---- C_DigestKey */
CK_RV vp_C_DigestKey(void)
PRE
__CPROVER_ensures((BAD_CALL || !OBJ_OK(K0, SES(HARG0))) ==> REFUSED_CLEAN)
__CPROVER_ensures((OBJ_OK(K0, SES(HARG0)) && PRIV_DENIED(K0)) ==> REFUSED_CLEAN)
/* C12: only inside a digest operation */
__CPROVER_ensures((SES(INIT) && SES(VALID) && SES(OPTYPE) != 0x4) ==> (RV == CKR_OPERATION_NOT_INITIALIZED && VP_NO_EFFECT))
__CPROVER_ensures((SFX(TAIL_N) == 0) ==> (RV != CKR_OK && CNT(VALUE_READS) == 0 && CNT(DECRYPT) == 0))
FRAME;

/* ---- C_WrapKey: HARG0 = wrapping key, HARG1 = key to be wrapped */
CK_RV vp_C_WrapKey(void)
PRE
__CPROVER_ensures((BAD_CALL || SES(MECH_NULL) || SES(NULL_OUT) || !OBJ_OK(K0, SES(HARG0)) || !OBJ_OK(K1, SES(HARG1))) ==> REFUSED_CLEAN)
__CPROVER_ensures((OBJ_OK(K0, SES(HARG0)) && PRIV_DENIED(K0)) ==> REFUSED_CLEAN)
__CPROVER_ensures((OBJ_OK(K0, SES(HARG0)) && OBJ_OK(K1, SES(HARG1)) && PRIV_DENIED(K1)) ==> REFUSED_CLEAN)
/* C07 */
__CPROVER_ensures((OBJ_OK(K0, SES(HARG0)) && OBJB(K0, WRAP) != 2) ==> REFUSED_CLEAN)
__CPROVER_ensures((OBJ_OK(K0, SES(HARG0)) && !SES(MECH_PERMITTED)) ==> REFUSED_CLEAN)
__CPROVER_ensures((SFX(TAIL_N) > 0) ==> (SFX(MECHPERM_N) >= 1 && SFX(MECHPERM_OBJ) == K0 && SFX(MECHPERM_MECH) == SES(MECH)))
/* C02: an unextractable key is never wrapped; a wrap-with-trusted key only under a trusted wrapping key */
__CPROVER_ensures((OBJ_OK(K0, SES(HARG0)) && OBJ_OK(K1, SES(HARG1)) && OBJB(K1, EXTRACTABLE) != 2) ==> REFUSED_CLEAN)
__CPROVER_ensures((OBJ_OK(K0, SES(HARG0)) && OBJ_OK(K1, SES(HARG1)) && OBJB(K1, WRAP_WITH_TRUSTED) == 2 && OBJB(K0, TRUSTED) != 2) ==> REFUSED_CLEAN)
__CPROVER_ensures((SFX(TAIL_N) == 0) ==> REFUSED_CLEAN)
FRAME;

/* ---- C_CopyObject (prefix up to object creation); the template has SES(TCOUNT) <= 2 entries */
#define T_IS(i, t) ((i) < SES(TCOUNT) && TMPL(i, TYPE) == (t) && TMPL(i, LEN) == 1)
#define T_TRUE(i) ((TMPL(i, VAL) & 0xff) != 0)
#define WAS_PRIVATE (OBJB(K0, PRIVATE) != 1)      /* absent counts as private (the code's safe default) */
#define WAS_TOKEN (OBJB(K0, TOKEN) == 2)
#define NEW_PRIVATE (T_IS(1, CKA_PRIVATE) ? T_TRUE(1) : T_IS(0, CKA_PRIVATE) ? T_TRUE(0) : WAS_PRIVATE)
#define NEW_TOKEN (T_IS(1, CKA_TOKEN) ? T_TRUE(1) : T_IS(0, CKA_TOKEN) ? T_TRUE(0) : WAS_TOKEN)
CK_RV vp_C_CopyObject(void)
PRE
__CPROVER_requires(SES(TCOUNT) <= VP_TMPL_MAX && !TMPL(0, NULL) && !TMPL(1, NULL))
__CPROVER_ensures((BAD_CALL || SES(NULL_OUT) || !OBJ_OK(K0, SES(HARG0))) ==> REFUSED_CLEAN)
__CPROVER_ensures((OBJ_OK(K0, SES(HARG0)) && PRIV_DENIED(K0)) ==> REFUSED_CLEAN)
/* C08: CKA_COPYABLE false; copying cannot turn a private object public */
__CPROVER_ensures((OBJ_OK(K0, SES(HARG0)) && OBJB(K0, COPYABLE) == 1) ==> REFUSED_CLEAN)
__CPROVER_ensures((OBJ_OK(K0, SES(HARG0)) && OBJB(K0, PRIVATE) == 2 && !NEW_PRIVATE) ==> REFUSED_CLEAN)
/* C01: no private object is created outside a user session, no token object through a read-only session */
__CPROVER_ensures((OBJ_OK(K0, SES(HARG0)) && NEW_PRIVATE && !VP_SES_USER) ==> REFUSED_CLEAN)
__CPROVER_ensures((OBJ_OK(K0, SES(HARG0)) && NEW_TOKEN && !SES(RW)) ==> REFUSED_CLEAN)
__CPROVER_ensures((SFX(TAIL_N) == 0) ==> REFUSED_CLEAN)
FRAME;

/* ---- C_UnwrapKey / C_DeriveKey (prefix up to the template extraction); HARG0 = unwrapping / base key */
#define K_KEYED(FLAG) \
  PRE \
  __CPROVER_ensures((BAD_CALL || SES(MECH_NULL) || SES(NULL_OUT) || !OBJ_OK(K0, SES(HARG0))) ==> REFUSED_CLEAN) \
  __CPROVER_ensures((OBJ_OK(K0, SES(HARG0)) && PRIV_DENIED(K0)) ==> REFUSED_CLEAN) \
  __CPROVER_ensures((OBJ_OK(K0, SES(HARG0)) && OBJB(K0, FLAG) != 2) ==> REFUSED_CLEAN) \
  __CPROVER_ensures((OBJ_OK(K0, SES(HARG0)) && !SES(MECH_PERMITTED)) ==> REFUSED_CLEAN) \
  __CPROVER_ensures((SFX(TAIL_N) > 0) ==> (SFX(MECHPERM_N) >= 1 && SFX(MECHPERM_OBJ) == K0 && SFX(MECHPERM_MECH) == SES(MECH))) \
  __CPROVER_ensures((SFX(TAIL_N) == 0) ==> REFUSED_CLEAN) \
  FRAME
CK_RV vp_C_UnwrapKey(void) K_KEYED(UNWRAP);
CK_RV vp_C_DeriveKey(void) K_KEYED(DERIVE);

#define H(f, c1, c2) void vp_call_##f(void) { vp_rv = vp_##f(); } \
  void h_##f(void) { VP_HAVOC_SOFTHSM(); vp_call_##f(); VP_COVER(c1); VP_COVER(c2); }
H(C_GetAttributeValue, vp_rv == CKR_OK && SFX(TAIL_N) == 1, vp_rv == CKR_GENERAL_ERROR)
H(C_SetAttributeValue, vp_rv == CKR_OK && SFX(TAIL_N) == 1, vp_rv == CKR_ACTION_PROHIBITED)
H(C_DestroyObject, vp_rv == CKR_OK, vp_rv == CKR_ACTION_PROHIBITED)
H(C_GetObjectSize, vp_rv == CKR_OK, vp_rv == CKR_OBJECT_HANDLE_INVALID)
H(C_DigestKey, vp_rv == CKR_OK && SFX(TAIL_N) == 1, vp_rv == CKR_USER_NOT_LOGGED_IN)
H(C_WrapKey, vp_rv == CKR_OK && SFX(TAIL_N) == 1 && SES(MECH) == CKM_AES_CBC_PAD, vp_rv == CKR_KEY_UNEXTRACTABLE)
H(C_CopyObject, vp_rv == CKR_OK && SFX(TAIL_N) == 1 && SES(TCOUNT) == 2, vp_rv == CKR_TEMPLATE_INCONSISTENT)
H(C_UnwrapKey, vp_rv == CKR_OK && SFX(TAIL_N) == 1, vp_rv == CKR_KEY_FUNCTION_NOT_PERMITTED)
H(C_DeriveKey, vp_rv == CKR_OK && SFX(TAIL_N) == 1, vp_rv == CKR_KEY_FUNCTION_NOT_PERMITTED)
