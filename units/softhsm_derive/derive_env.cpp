// environment of SoftHSM::deriveSymmetric (same translation unit as the sliced SoftHSM.cpp under cbmc)
#include "SymmetricKey.h"
#include "DESKey.h"
#include "AESKey.h"
#include "shared.h"

CK_RV SoftHSM::CreateObject(CK_SESSION_HANDLE, CK_ATTRIBUTE_PTR, CK_ULONG, CK_OBJECT_HANDLE_PTR phObject, int op)
{
	OUT(create_n)++; OUT(create_op) = (CK_ULONG)op;
	if (IN(create_rv) != CKR_OK) return IN(create_rv);
	SFX(CREATE_N)++;
	*phObject = VP_NEW_HANDLE;
	return CKR_OK;
}
// key check values: crypto, assumed (three ghost bytes)
SymmetricKey::SymmetricKey(size_t inBitLen) { bitLen = inBitLen; }
bool SymmetricKey::setKeyBits(const ByteString& keybits) { keyData = keybits; return true; }
void SymmetricKey::setBitLen(const size_t inBitLen) { bitLen = inBitLen; }
static ByteString vp_kcv() { ByteString v(vp_in_data, 3); return v; }
ByteString SymmetricKey::getKeyCheckValue() const { return vp_kcv(); }
ByteString DESKey::getKeyCheckValue() const { return vp_kcv(); }
ByteString AESKey::getKeyCheckValue() const { return vp_kcv(); }

static CK_RV derive_with(CK_MECHANISM_TYPE m)
{
	VP_MK_HSM();
	CK_MECHANISM mech; mech.mechanism = m;
	CK_OBJECT_HANDLE other = SES(HARG1);
	unsigned char dbuf[8]; for (int i = 0; i < 8; i++) dbuf[i] = vp_in_data[i];
	CK_KEY_DERIVATION_STRING_DATA sd; sd.pData = &dbuf[0]; sd.ulLen = IN(datalen);
	if (m == CKM_CONCATENATE_BASE_AND_KEY) { mech.pParameter = &other; mech.ulParameterLen = sizeof(other); }
	else { mech.pParameter = &sd; mech.ulParameterLen = sizeof(sd); }
	VP_MK_TMPL();
	CK_OBJECT_HANDLE h = 0;
	CK_RV rv = hsm->deriveSymmetric(SES(HSESSION), &mech, SES(HARG0), &tmpl[0], SES(TCOUNT), &h, IN(keyType), IN(isOnToken) ? CK_TRUE : CK_FALSE, IN(isPrivate) ? CK_TRUE : CK_FALSE);
	OUT(h) = h;
	return rv;
}
extern "C" CK_RV vp_derive_bk(void) { return derive_with(CKM_CONCATENATE_BASE_AND_KEY); }
extern "C" CK_RV vp_derive_bd(void) { return derive_with(CKM_CONCATENATE_BASE_AND_DATA); }
extern "C" CK_RV vp_derive_db(void) { return derive_with(CKM_CONCATENATE_DATA_AND_BASE); }
