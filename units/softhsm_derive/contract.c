/* SoftHSM::deriveSymmetric for the three concatenation mechanisms (whole function).
 * C02: the derived key inherits CKA_SENSITIVE = true and CKA_EXTRACTABLE = false from the base key(s), and nothing in
 *      the same call undoes it.  C08: CKA_LOCAL false; CKA_ALWAYS_SENSITIVE / CKA_NEVER_EXTRACTABLE are true iff they are
 *      true on the base key(s) (PKCS#11 v2.40 2.31.3-2.31.5).  C06: a private derived key's value is stored as the
 *      output of Token::encrypt.  C09: a failure after the object was created removes it again. */
#include "shared.h"
CK_ULONG vp_in[VP_IN_N];
unsigned char vp_in_data[8];
CK_ULONG vp_out[VP_OUT_N];
CK_RV vp_rv;
VP_SOFTHSM_CALLEE_CONTRACTS

#define RV __CPROVER_return_value
#define B0 VP_OBJ_OF(SES(HARG0))      /* base key */
#define B1 VP_OBJ_OF(SES(HARG1))      /* other key (BASE_AND_KEY) */
#define CREATED (SFX(CREATE_N) > 0)
/* value of the LAST setAttribute(type, bool) on the new object: 0 / 1, or 2 if never set */
static CK_ULONG last_bool(CK_ATTRIBUTE_TYPE type)
{
  CK_ULONG v = 2;
  for (CK_ULONG i = 0; i < VP_LOG_MAX; i++) if (i < CNT(LOG) && LOGF(i, KIND) == E_SET_BOOL && LOGF(i, OBJ) == 2 && LOGF(i, TYPE) == type) v = LOGF(i, VAL);
  return v;
}
static long value_idx(void)
{
  for (CK_ULONG i = 0; i < VP_LOG_MAX; i++) if (i < CNT(LOG) && LOGF(i, KIND) == E_SET_BYTES && LOGF(i, OBJ) == 2 && LOGF(i, TYPE) == CKA_VALUE) return (long)i;
  return -1;
}
#define T(k, a) (OBJB(k, a) == 2)
#define F(k, a) (OBJB(k, a) == 1)

#define PRE \
  __CPROVER_requires(VP_FRESH_GHOST && SES(HOBJ0) != SES(HOBJ1) && SES(HOBJ0) != VP_NEW_HANDLE && SES(HOBJ1) != VP_NEW_HANDLE && SES(HOBJ0) != 0 && SES(HOBJ1) != 0) \
  __CPROVER_requires(SES(TCOUNT) <= VP_TMPL_MAX && TMPL(0, LEN) <= 8 && TMPL(1, LEN) <= 8 && !TMPL(0, NULL) && !TMPL(1, NULL) && IN(datalen) <= 8 && OUT(create_n) == 0) \
  /* w.l.o.g. the base key is environment object 0 and the other key object 1 (handles that resolve to nothing are the case HOBJ invalid) */ \
  __CPROVER_requires(SES(HARG0) == SES(HOBJ0) && SES(HARG1) == SES(HOBJ1)) \
  /* key values are the objects' byte-string attribute CKA_VALUE */ \
  __CPROVER_requires(OBJX(0, OTHER_TYPE) == CKA_VALUE && OBJX(1, OTHER_TYPE) == CKA_VALUE && OBJX(0, OTHER_KIND) == 3 && OBJX(1, OTHER_KIND) == 3)
#define COMMON \
  /* C08 */ \
  __CPROVER_ensures((RV == CKR_OK) ==> (CREATED && last_bool(CKA_LOCAL) == 0 && OUT(create_op) == 0x3 && OUT(h) == VP_NEW_HANDLE && CNT(TX_COMMIT) == 1)) \
  /* C06 */ \
  __CPROVER_ensures((RV == CKR_OK) ==> (value_idx() >= 0)) \
  __CPROVER_ensures((RV == CKR_OK && IN(isPrivate) && value_idx() >= 0) ==> (LOGF(value_idx(), PROV) == 1 || LOGF(value_idx(), VAL) == 0)) \
  /* C09 */ \
  __CPROVER_ensures((RV != CKR_OK && CREATED && SES(NEW_RESOLVES)) ==> (SFX(HM_DESTROY_N) == 1 && SFX(HM_DESTROY_H) == VP_NEW_HANDLE && CNT(DESTROY) == 1 && OUT(h) == CK_INVALID_HANDLE)) \
  __CPROVER_ensures((RV != CKR_OK) ==> (OUT(h) == CK_INVALID_HANDLE)) \
  __CPROVER_ensures((RV == CKR_OK) ==> (SFX(HM_DESTROY_N) == 0 && CNT(DESTROY) == 0)) \
  __CPROVER_assigns(__CPROVER_object_whole(vp_out), VP_SOFTHSM_FRAME)

/* CKM_CONCATENATE_BASE_AND_KEY: two source keys */
CK_RV vp_derive_bk(void)
PRE
__CPROVER_ensures((RV == CKR_OK) ==> (B0 == 0 && B1 == 1))
__CPROVER_ensures((RV == CKR_OK && (T(0, SENSITIVE) || T(1, SENSITIVE))) ==> (last_bool(CKA_SENSITIVE) == 1))
__CPROVER_ensures((RV == CKR_OK && (F(0, EXTRACTABLE) || F(1, EXTRACTABLE))) ==> (last_bool(CKA_EXTRACTABLE) == 0))
__CPROVER_ensures((RV == CKR_OK) ==> (last_bool(CKA_ALWAYS_SENSITIVE) == ((T(0, ALWAYS_SENSITIVE) && T(1, ALWAYS_SENSITIVE)) ? 1UL : 0UL)))
__CPROVER_ensures((RV == CKR_OK) ==> (last_bool(CKA_NEVER_EXTRACTABLE) == ((T(0, NEVER_EXTRACTABLE) && T(1, NEVER_EXTRACTABLE)) ? 1UL : 0UL)))
COMMON;

/* CKM_CONCATENATE_BASE_AND_DATA / DATA_AND_BASE: one source key */
#define K_ONE \
  PRE \
  __CPROVER_ensures((RV == CKR_OK) ==> (B0 == 0)) \
  __CPROVER_ensures((RV == CKR_OK && T(0, SENSITIVE)) ==> (last_bool(CKA_SENSITIVE) == 1)) \
  __CPROVER_ensures((RV == CKR_OK && F(0, EXTRACTABLE)) ==> (last_bool(CKA_EXTRACTABLE) == 0)) \
  __CPROVER_ensures((RV == CKR_OK) ==> (last_bool(CKA_ALWAYS_SENSITIVE) == (T(0, ALWAYS_SENSITIVE) ? 1UL : 0UL))) \
  __CPROVER_ensures((RV == CKR_OK) ==> (last_bool(CKA_NEVER_EXTRACTABLE) == (T(0, NEVER_EXTRACTABLE) ? 1UL : 0UL))) \
  COMMON
CK_RV vp_derive_bd(void) K_ONE;
CK_RV vp_derive_db(void) K_ONE;

void vp_call_BASE_AND_KEY(void) { vp_rv = vp_derive_bk(); }
void vp_call_BASE_AND_DATA(void) { vp_rv = vp_derive_bd(); }
void vp_call_DATA_AND_BASE(void) { vp_rv = vp_derive_db(); }
#define HH(hn, call) void hn(void) { VP_HAVOC_SOFTHSM(); __CPROVER_havoc_object(vp_in); __CPROVER_havoc_object(vp_in_data); call(); \
    VP_COVER(vp_rv == CKR_OK && IN(isPrivate) && IN(keyType) == CKK_GENERIC_SECRET); VP_COVER(vp_rv == CKR_OK && T(0, SENSITIVE) && IN(keyType) == CKK_AES); VP_COVER(vp_rv == CKR_FUNCTION_FAILED && CREATED); }
HH(h_bk, vp_call_BASE_AND_KEY) HH(h_bd, vp_call_BASE_AND_DATA) HH(h_db, vp_call_DATA_AND_BASE)
