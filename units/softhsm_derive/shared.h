#ifndef VP_DER_SHARED_H
#define VP_DER_SHARED_H
#include "softhsm_env.h"
enum vp_in_idx { I_keyType, I_isOnToken, I_isPrivate, I_create_rv, I_datalen, I_phNull, VP_IN_N };
enum vp_out_idx { O_create_n, O_create_op, O_h, VP_OUT_N };
VP_C_BEGIN
extern CK_ULONG vp_in[VP_IN_N];
extern unsigned char vp_in_data[8];
extern CK_ULONG vp_out[VP_OUT_N];
VP_C_END
#define IN(x) vp_in[(int)I_##x]
#define OUT(x) vp_out[(int)O_##x]
#define VP_NEW_HANDLE 777UL
#endif
