// The scalar codecs of File.cpp as their proved contracts (unit file_codec) - cbmc mode only; the callers under
// contract here are checked against these, not against the bodies.
#ifndef VP_NATIVE
#include "config.h"
#include "File.h"
#include "shared.h"
// (loop-free: the unit's unwinding bound is the small bound of the real loops under contract)
#define VP_B(p, k) ((unsigned long)vp_in_file[p + k])   /* p: a local variable (cbmc's C++ parser reads `(x) + (k)` as a cast) */
#define VP_DEC8(p) ((VP_B(p,0) << 56) | (VP_B(p,1) << 48) | (VP_B(p,2) << 40) | (VP_B(p,3) << 32) | (VP_B(p,4) << 24) | (VP_B(p,5) << 16) | (VP_B(p,6) << 8) | VP_B(p,7))
#define VP_E(p, v, k) vp_in_file[p + k] = (unsigned char)((v >> (56 - 8 * k)) & 0xff)
#define VP_ENC8(p, v) do { VP_E(p,v,0); VP_E(p,v,1); VP_E(p,v,2); VP_E(p,v,3); VP_E(p,v,4); VP_E(p,v,5); VP_E(p,v,6); VP_E(p,v,7); } while (0)
#define RFAIL (!valid || FST(READ_FAILS))
#define WFAIL (!valid || FST(WRITE_FAILS))
bool File::readULong(unsigned long& value)
{
	if (RFAIL || FST(POS) + 8 > FST(LEN)) return false;
	unsigned long p = FST(POS);
	value = VP_DEC8(p); FST(POS) += 8;
	return true;
}
bool File::writeULong(const unsigned long value)
{
	if (WFAIL || FST(POS) + 8 > VP_FILE_MAX) return false;
	unsigned long p = FST(POS);
	VP_ENC8(p, value);
	FST(POS) += 8; if (FST(POS) > FST(LEN)) FST(LEN) = FST(POS);
	return true;
}
bool File::readBool(bool& value)
{
	if (RFAIL || FST(POS) + 1 > FST(LEN)) return false;
	value = vp_in_file[FST(POS)] != 0; FST(POS) += 1;
	return true;
}
bool File::writeBool(const bool value)
{
	if (WFAIL || FST(POS) + 1 > VP_FILE_MAX) return false;
	vp_in_file[FST(POS)] = value ? 0xFF : 0x00;
	FST(POS) += 1; if (FST(POS) > FST(LEN)) FST(LEN) = FST(POS);
	return true;
}
bool File::readByteString(ByteString& value)
{
	if (RFAIL || FST(POS) + 8 > FST(LEN)) return false;
	unsigned long p = FST(POS);
	unsigned long len = VP_DEC8(p);
	if (len > FST(LEN) - FST(POS) - 8) return false;
	__CPROVER_assume(len <= VP_BYTES_MAX);      // the unit's stated bound on byte strings inside a map
	value.resize(len);
	for (unsigned long i = 0; i < VP_BYTES_MAX; i++) if (i < len) value[i] = vp_in_file[FST(POS) + 8 + i];
	FST(POS) += 8 + len;
	return true;
}
bool File::writeByteString(const ByteString& value)
{
	unsigned long len = value.size();
	if (WFAIL || FST(POS) + 8 + len > VP_FILE_MAX) return false;
	unsigned long p = FST(POS);
	VP_ENC8(p, len);
	for (unsigned long i = 0; i < VP_BYTES_MAX; i++) if (i < len) vp_in_file[FST(POS) + 8 + i] = value.const_byte_str()[i];
	FST(POS) += 8 + len; if (FST(POS) > FST(LEN)) FST(LEN) = FST(POS);
	return true;
}
#endif
