/* C05 (stable on-disk encoding of nested templates and mechanism sets; decode o encode = id) and C17 (arbitrary file
 * content is parsed safely): File::write/readMechanismTypeSet and File::write/readAttributeMap over a ghost file.
 * The formats are LITERAL: mechanism set = BE8(count) then BE8 per element; attribute map = BE8(total length of the
 * entries) then per entry BE8(type) BE8(kind) value with kind 1 = boolean (1 byte), 2 = unsigned long (BE8),
 * 3 = byte string (BE8(length) bytes), 5 = mechanism set - so a renumbering of the kinds, even a symmetric one in reader
 * and writer, fails here. */
#include "shared.h"
CK_ULONG vp_in[VP_IN_N];
unsigned char vp_in_file0[VP_FILE_MAX];
CK_ULONG vp_out[VP_OUT_N];
CK_RV vp_rv;
#define P0 OUT(pos0)
#define L0 OUT(len0)
#define FILE_AT(i) vp_in_file[i]
#define B0(p, k) ((p) + (k) < VP_FILE_MAX ? (CK_ULONG)vp_in_file0[(p) + (k)] : 0)
static CK_ULONG dec8(CK_ULONG p) { return (B0(p,0) << 56) | (B0(p,1) << 48) | (B0(p,2) << 40) | (B0(p,3) << 32) | (B0(p,4) << 24) | (B0(p,5) << 16) | (B0(p,6) << 8) | B0(p,7); }
/* the 8 bytes of the CURRENT file at p are the big-endian encoding of v */
#define BE(p, v, k) ((p) + (k) < VP_FILE_MAX && vp_in_file[(p) + (k)] == (unsigned char)(((v) >> (56 - 8 * (k))) & 0xff))
#define BC(p, k) ((p) + (k) < VP_FILE_MAX ? (CK_ULONG)vp_in_file[(p) + (k)] : 0)
/* big-endian value at p of the CURRENT file (= the initial one in a precondition) */
static CK_ULONG dec8cur(CK_ULONG p) { return (BC(p,0) << 56) | (BC(p,1) << 48) | (BC(p,2) << 40) | (BC(p,3) << 32) | (BC(p,4) << 24) | (BC(p,5) << 16) | (BC(p,6) << 8) | BC(p,7); }
static int is_be8(CK_ULONG p, CK_ULONG v) { return BE(p,v,0) && BE(p,v,1) && BE(p,v,2) && BE(p,v,3) && BE(p,v,4) && BE(p,v,5) && BE(p,v,6) && BE(p,v,7); }
#define PRE __CPROVER_requires(FST(LEN) <= VP_FILE_MAX && FST(POS) <= FST(LEN) && vp_g_fio[0] == 0 && vp_g_fio[1] == 0)
#define ROOM(n) (P0 + (n) <= VP_FILE_MAX)
#define WOK (IN(valid) && !FST(WRITE_FAILS))
#define ROK (IN(valid) && !FST(READ_FAILS))

/* ---- mechanism sets */
#define NM (IN(n) == 2 && IN(m0) == IN(m1) ? 1 : IN(n))
void vp_writeMechSet(void)
PRE
__CPROVER_requires(IN(n) <= 2 && (IN(n) < 2 || IN(m0) <= IN(m1)))
__CPROVER_ensures((WOK && ROOM(8 + 8 * NM)) ==> (OUT(ret) == 1 && FST(POS) == P0 + 8 + 8 * NM && is_be8(P0, NM) && (NM < 1 || is_be8(P0 + 8, IN(m0))) && (NM < 2 || is_be8(P0 + 16, IN(m1)))))
__CPROVER_ensures((!WOK || !ROOM(8 + 8 * NM)) ==> (OUT(ret) == 0))
__CPROVER_assigns(__CPROVER_object_whole(vp_out));

/* count = dec8(P0); elements follow; all inside the file */
#define MS_CNT dec8(P0)
#define MS_FITS (P0 + 8 <= L0 && MS_CNT <= (L0 - P0 - 8) / 8)
static int ms_has(CK_ULONG p, CK_ULONG cnt, CK_ULONG v) { for (CK_ULONG k = 0; k < VP_SET_CAP; k++) if (k < cnt && dec8(p + 8 + 8 * k) == v) return 1; return 0; }
void vp_readMechSet(void)
PRE
__CPROVER_ensures((ROK && MS_FITS && MS_CNT <= VP_SET_CAP) ==> (OUT(ret) == 1 && FST(POS) == P0 + 8 + 8 * MS_CNT && OUT(has_w) == (CK_ULONG)ms_has(P0, MS_CNT, IN(w)) && OUT(size) <= MS_CNT))
__CPROVER_ensures((!ROK || !MS_FITS) ==> (OUT(ret) == 0))
__CPROVER_ensures(FST(POS) <= L0 && vp_g_fio[0] == 0)
__CPROVER_assigns(__CPROVER_object_whole(vp_out));

/* ---- attribute maps: written */
#define BLEN(v) ((v) & 3)
#define VSIZE(k, v) ((k) == 1 ? 1 : (k) == 2 ? 8 : (k) == 3 ? 8 + BLEN(v) : 16)
#define TWO (IN(n) == 2 && IN(t0) != IN(t1))
#define E0 (16 + VSIZE(IN(k0), IN(v0)))
#define TOTAL (IN(n) == 0 ? 0 : E0 + (TWO ? 17 : 0))
static int value_ok(CK_ULONG p, CK_ULONG k, CK_ULONG v)
{
  if (k == 1) return p < VP_FILE_MAX && vp_in_file[p] == (v ? 0xFF : 0x00);
  if (k == 2) return is_be8(p, v);
  if (k == 3) return is_be8(p, BLEN(v)) && (BLEN(v) < 1 || vp_in_file[p + 8] == (unsigned char)(v >> 8)) && (BLEN(v) < 3 || vp_in_file[p + 10] == (unsigned char)(v >> 8));
  return is_be8(p, 1) && is_be8(p + 8, v);
}
void vp_writeAttrMap(void)
PRE
__CPROVER_requires(IN(n) <= 2 && (IN(k0) == 1 || IN(k0) == 2 || IN(k0) == 3 || IN(k0) == 5) && (IN(n) < 2 || IN(t0) <= IN(t1)))
__CPROVER_ensures((WOK && ROOM(8 + TOTAL)) ==> (OUT(ret) == 1 && FST(POS) == P0 + 8 + TOTAL && is_be8(P0, TOTAL)))
__CPROVER_ensures((WOK && ROOM(8 + TOTAL) && IN(n) >= 1) ==> (is_be8(P0 + 8, IN(t0)) && is_be8(P0 + 16, IN(k0)) && value_ok(P0 + 24, IN(k0), IN(v0))))
__CPROVER_ensures((WOK && ROOM(8 + TOTAL) && TWO) ==> (is_be8(P0 + 8 + E0, IN(t1)) && is_be8(P0 + 16 + E0, 1) && vp_in_file[P0 + 24 + E0] == (IN(v1) ? 0xFF : 0x00)))
__CPROVER_ensures((!WOK || !ROOM(8 + TOTAL)) ==> (OUT(ret) == 0))
__CPROVER_assigns(__CPROVER_object_whole(vp_out));

/* ---- attribute maps: read from ARBITRARY content.  A well-formed ONE-entry map of each kind is accepted with exactly
 * that entry; unknown kinds (0, 4, >= 6), truncated records and inconsistent lengths are rejected; the reader never passes EOF. */
#define AM_LEN dec8(P0)
#define AM_T dec8(P0 + 8)
#define AM_K dec8(P0 + 16)
#define AM_V dec8(P0 + 24)
#define HDR (ROK && P0 + 24 <= L0)
#define ONE_BOOL (HDR && AM_K == 1 && AM_LEN == 17 && P0 + 25 <= L0)
#define ONE_ULONG (HDR && AM_K == 2 && AM_LEN == 24 && P0 + 32 <= L0)
#define ONE_BYTES (HDR && AM_K == 3 && P0 + 32 <= L0 && AM_V <= L0 - P0 - 32 && AM_V <= 6 && AM_LEN == 24 + AM_V)
#define ONE_MECH (HDR && AM_K == 5 && P0 + 32 <= L0 && AM_V == 1 && P0 + 40 <= L0 && AM_LEN == 32)
void vp_readAttrMap(void)
PRE
__CPROVER_requires(IN(w) == dec8cur(FST(POS) + 8))     /* the witness key is the type field of the first entry */
__CPROVER_ensures((ROK && P0 + 8 <= L0 && AM_LEN == 0) ==> (OUT(ret) == 1 && OUT(size) == 0 && FST(POS) == P0 + 8))
__CPROVER_ensures(ONE_BOOL ==> (OUT(ret) == 1 && OUT(size) == 1 && OUT(has_w) && OUT(kind_w) == 1 && OUT(val_w) == (vp_in_file0[P0 + 24] != 0) && FST(POS) == P0 + 25))
__CPROVER_ensures(ONE_ULONG ==> (OUT(ret) == 1 && OUT(size) == 1 && OUT(has_w) && OUT(kind_w) == 2 && OUT(val_w) == AM_V && FST(POS) == P0 + 32))
__CPROVER_ensures(ONE_BYTES ==> (OUT(ret) == 1 && OUT(size) == 1 && OUT(has_w) && OUT(kind_w) == 3 && OUT(val_w) == AM_V && (AM_V == 0 || OUT(val2_w) == vp_in_file0[P0 + 32]) && FST(POS) == P0 + 32 + AM_V))
__CPROVER_ensures((ONE_MECH && IN(m0) == dec8(P0 + 32)) ==> (OUT(ret) == 1 && OUT(size) == 1 && OUT(has_w) && OUT(kind_w) == 5 && OUT(val_w) == 1 && OUT(val2_w) == 1 && FST(POS) == P0 + 40))
/* rejected */
__CPROVER_ensures((HDR && AM_LEN != 0 && !(AM_K == 1 || AM_K == 2 || AM_K == 3 || AM_K == 5)) ==> (OUT(ret) == 0))
__CPROVER_ensures((HDR && AM_LEN != 0 && AM_LEN < 17) ==> (OUT(ret) == 0))
__CPROVER_ensures((!ROK || P0 + 8 > L0) ==> (OUT(ret) == 0))
__CPROVER_ensures(FST(POS) <= L0 && vp_g_fio[0] == 0)
__CPROVER_assigns(__CPROVER_object_whole(vp_out));

#define HAVOC() do { __CPROVER_havoc_object(vp_in); __CPROVER_havoc_object(vp_in_file); __CPROVER_havoc_object(vp_in_fst); } while (0)
void vp_call_writeMechSet(void) { vp_writeMechSet(); }
void h_writeMechSet(void) { HAVOC(); vp_call_writeMechSet(); VP_COVER(OUT(ret) == 1 && NM == 2); VP_COVER(OUT(ret) == 0 && WOK); VP_COVER(OUT(ret) == 1 && NM == 0); }
void vp_call_readMechSet(void) { vp_readMechSet(); }
void h_readMechSet(void) { HAVOC(); vp_call_readMechSet(); VP_COVER(OUT(ret) == 1 && OUT(size) == 3 && OUT(has_w)); VP_COVER(OUT(ret) == 0 && ROK && P0 + 8 <= L0); VP_COVER(OUT(ret) == 1 && OUT(size) == 0); }
void vp_call_writeAttrMap(void) { vp_writeAttrMap(); }
void h_writeAttrMap(void) { HAVOC(); vp_call_writeAttrMap(); VP_COVER(OUT(ret) == 1 && IN(n) == 1 && IN(k0) == 3 && BLEN(IN(v0)) == 3); VP_COVER(OUT(ret) == 1 && TWO && IN(k0) == 1 && IN(v0) && !IN(v1)); VP_COVER(OUT(ret) == 1 && IN(n) == 1 && IN(k0) == 5); VP_COVER(OUT(ret) == 1 && IN(n) == 0); VP_COVER(OUT(ret) == 0 && WOK); }
void vp_call_readAttrMap(void) { vp_readAttrMap(); }
void h_readAttrMap(void) { HAVOC(); vp_call_readAttrMap(); VP_COVER(ONE_BOOL && OUT(val_w)); VP_COVER(ONE_BYTES && AM_V == 5); VP_COVER(ONE_MECH); VP_COVER(OUT(ret) == 1 && OUT(size) == 2); VP_COVER(OUT(ret) == 0 && HDR && AM_K == 4); VP_COVER(ONE_ULONG); }
