// (cbmc: included at the end of the sliced File.cpp)
#include "config.h"
#include "File.h"
#include "OSAttribute.h"
#include "shared.h"
#define MK long f_store[(sizeof(File) + 7) / 8 + 1]; File* f = (File*)(void*)&f_store[0]; f->valid = IN(valid) != 0; f->stream = (FILE*)(void*)&f_store[0]; \
	OUT(pos0) = FST(POS); OUT(len0) = FST(LEN); memcpy(vp_in_file0, vp_in_file, VP_FILE_MAX)

extern "C" void vp_writeMechSet(void)
{
	MK; std::set<CK_MECHANISM_TYPE> s;
	if (IN(n) >= 1) s.insert(IN(m0));
	if (IN(n) >= 2) s.insert(IN(m1));
	OUT(ret) = f->writeMechanismTypeSet(s) ? 1 : 0;
}
extern "C" void vp_readMechSet(void)
{
	MK; std::set<CK_MECHANISM_TYPE> s;
	OUT(ret) = f->readMechanismTypeSet(s) ? 1 : 0;
	OUT(size) = s.size();
	OUT(has_w) = s.find(IN(w)) != s.end();
}
static void put(std::map<CK_ATTRIBUTE_TYPE,OSAttribute>& m, CK_ULONG type, CK_ULONG kind, CK_ULONG val)
{
	if (kind == 1) { bool b = val != 0; OSAttribute a(b); m.insert(std::pair<CK_ATTRIBUTE_TYPE,OSAttribute>(type, a)); }
	else if (kind == 2) { unsigned long u = val; OSAttribute a(u); m.insert(std::pair<CK_ATTRIBUTE_TYPE,OSAttribute>(type, a)); }
	else if (kind == 3)
	{
		ByteString bs; bs.resize(val & 3);
		for (size_t i = 0; i < (val & 3); i++) bs[i] = (unsigned char)(val >> 8);
		OSAttribute a(bs); m.insert(std::pair<CK_ATTRIBUTE_TYPE,OSAttribute>(type, a));
	}
	else { std::set<CK_MECHANISM_TYPE> s; s.insert(val); OSAttribute a(s); m.insert(std::pair<CK_ATTRIBUTE_TYPE,OSAttribute>(type, a)); }
}
extern "C" void vp_writeAttrMap(void)
{
	MK; std::map<CK_ATTRIBUTE_TYPE,OSAttribute> m;
	if (IN(n) >= 1) put(m, IN(t0), IN(k0), IN(v0));
	if (IN(n) >= 2) put(m, IN(t1), 1, IN(v1));
	OUT(ret) = f->writeAttributeMap(m) ? 1 : 0;
}
extern "C" void vp_readAttrMap(void)
{
	MK; std::map<CK_ATTRIBUTE_TYPE,OSAttribute> m;
	OUT(ret) = f->readAttributeMap(m) ? 1 : 0;
	OUT(size) = m.size();
	std::map<CK_ATTRIBUTE_TYPE,OSAttribute>::iterator it = m.find(IN(w));
	OUT(has_w) = it != m.end(); OUT(kind_w) = 0; OUT(val_w) = 0; OUT(val2_w) = 0;
	if (it != m.end())
	{
		OSAttribute a = (*it).second;
		if (a.isBooleanAttribute()) { OUT(kind_w) = 1; OUT(val_w) = a.getBooleanValue(); }
		else if (a.isUnsignedLongAttribute()) { OUT(kind_w) = 2; OUT(val_w) = a.getUnsignedLongValue(); }
		else if (a.isByteStringAttribute()) { ByteString v = a.getByteStringValue(); OUT(kind_w) = 3; OUT(val_w) = v.size(); OUT(val2_w) = v.size() ? v[0] : 0; }
		else if (a.isMechanismTypeSetAttribute()) { std::set<CK_MECHANISM_TYPE> s = a.getMechanismTypeSetValue(); OUT(kind_w) = 5; OUT(val_w) = s.size(); OUT(val2_w) = s.find(IN(m0)) != s.end(); }
		else OUT(kind_w) = 9;
	}
}
