#ifndef VP_FAM_SHARED_H
#define VP_FAM_SHARED_H
#include "stdio_ghost.h"
/* written value: n entries (0..2); entry: type, kind (1 bool, 2 ulong, 3 bytes, 5 mechanism set), value (bytes: length <= 4 | byte << 8; mech set: one element) */
enum vp_in_idx { I_valid, I_n, I_t0, I_k0, I_v0, I_t1, I_v1, I_m0, I_m1, I_w, VP_IN_N };
enum vp_out_idx { O_ret, O_pos0, O_len0, O_size, O_has_w, O_kind_w, O_val_w, O_val2_w, O_elem_w, VP_OUT_N };
VP_C_BEGIN
extern CK_ULONG vp_in[VP_IN_N];
extern unsigned char vp_in_file0[VP_FILE_MAX];   /* copy of the initial file content */
extern CK_ULONG vp_out[VP_OUT_N];
VP_C_END
#define IN(x) vp_in[(int)I_##x]
#define OUT(x) vp_out[(int)O_##x]
#endif
