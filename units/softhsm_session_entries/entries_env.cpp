// environment of the session / PIN entry points (same translation unit as the sliced SoftHSM.cpp under cbmc)
#include "SlotManager.h"
#include "SessionManager.h"
#include "SessionObjectStore.h"
#include "shared.h"

static void vp_call(CK_ULONG code, CK_ULONG a0, CK_ULONG a1, CK_ULONG a2)
{
	CK_ULONG n = OUT(ncalls);
	if (n < VP_CALLS_MAX) { CALL(n, 0) = code; CALL(n, 1) = a0; CALL(n, 2) = a1; CALL(n, 3) = a2; }
	OUT(ncalls) = n + 1;
}
static CK_ULONG sig(const ByteString& b)
{
	size_t n = b.byteString.size();
	return n == 0 ? 0 : ((CK_ULONG)VP_BV_AT(b.byteString, 0) | (n > 1 ? ((CK_ULONG)VP_BV_AT(b.byteString, 1) << 8) : 0));
}
// stand-in for ByteString(bytes, len): the length is kept as it is (any value), the first VP_BYTES_MAX bytes are copied
ByteString::ByteString(const unsigned char* bytes, const size_t bytesLen)
{
	VP_BV_SET_LEN(byteString, bytesLen);
	for (size_t i = 0; i < VP_BYTES_MAX; i++) if (i < bytesLen) VP_BV_AT(byteString, i) = bytes[i];
}

Slot* SlotManager::getSlot(CK_SLOT_ID slotID) { vp_call(K_SLOTMGR_GET, slotID, 0, 0); return IN(slotNull) ? (Slot*)0 : vp_slot(); }
Token* Slot::getToken() { return IN(slotTokenNull) ? (Token*)0 : vp_token(); }
CK_RV Slot::initToken(ByteString& soPIN, CK_UTF8CHAR_PTR label) { vp_call(K_SLOT_INIT_TOKEN, soPIN.byteString.size(), sig(soPIN), label == NULL_PTR ? 0 : label[0]); return IN(callee_rv); }

bool SessionManager::haveSession(CK_SLOT_ID slotID) { vp_call(K_SM_HAVE_SESSION, slotID, 0, 0); return IN(haveSession) != 0; }
bool SessionManager::haveROSession(CK_SLOT_ID slotID) { vp_call(K_SM_HAVE_RO, slotID, 0, 0); return IN(haveRO) != 0; }
CK_RV SessionManager::openSession(Slot* slot, CK_FLAGS flags, CK_VOID_PTR, CK_NOTIFY, CK_SESSION_HANDLE_PTR phSession)
{
	vp_call(K_SM_OPEN, slot == NULL ? 0 : 1, flags, 0);
	if (IN(open_rv) == CKR_OK && phSession != NULL_PTR) *phSession = IN(open_sid);
	return IN(open_rv);
}
Session* SessionManager::getSession(CK_SESSION_HANDLE hSession) { vp_call(K_SM_GET_SESSION, hSession, 0, 0); return IN(smGetNull) ? (Session*)0 : vp_session(); }
CK_RV SessionManager::closeSession(CK_SESSION_HANDLE hSession) { vp_call(K_SM_CLOSE_SESSION, hSession, 0, 0); return IN(callee_rv); }
CK_RV SessionManager::closeAllSessions(Slot* slot) { vp_call(K_SM_CLOSE_ALL, slot == vp_slot() ? 1 : 0, 0, 0); return IN(callee_rv); }

CK_SESSION_HANDLE HandleManager::addSession(CK_SLOT_ID slotID, CK_VOID_PTR session) { vp_call(K_HM_ADD_SESSION, slotID, session == (CK_VOID_PTR)vp_session() ? 1 : 0, 0); return IN(hm_newHandle); }
void HandleManager::sessionClosed(const CK_SESSION_HANDLE hSession) { vp_call(K_HM_SESSION_CLOSED, hSession, 0, 0); }
void HandleManager::allSessionsClosed(const CK_SLOT_ID slotID, bool isLocked) { vp_call(K_HM_ALL_CLOSED, slotID, isLocked ? 1 : 0, 0); }
void HandleManager::tokenLoggedOut(const CK_SLOT_ID slotID) { vp_call(K_HM_TOKEN_LOGGED_OUT, slotID, 0, 0); }
void SessionObjectStore::sessionClosed(CK_SESSION_HANDLE hSession) { vp_call(K_SOS_SESSION_CLOSED, hSession, 0, 0); }
void SessionObjectStore::allSessionsClosed(CK_SLOT_ID slotID) { vp_call(K_SOS_ALL_CLOSED, slotID, 0, 0); }
void SessionObjectStore::tokenLoggedOut(CK_SLOT_ID slotID) { vp_call(K_SOS_TOKEN_LOGGED_OUT, slotID, 0, 0); }

CK_RV Token::initUserPIN(ByteString& pin) { vp_call(K_TOK_INIT_USER_PIN, pin.byteString.size(), sig(pin), 0); return IN(callee_rv); }
CK_RV Token::setUserPIN(ByteString& oldPIN, ByteString& newPIN) { vp_call(K_TOK_SET_USER_PIN, oldPIN.byteString.size(), newPIN.byteString.size(), sig(oldPIN) | (sig(newPIN) << 16)); return IN(callee_rv); }
CK_RV Token::setSOPIN(ByteString& oldPIN, ByteString& newPIN) { vp_call(K_TOK_SET_SO_PIN, oldPIN.byteString.size(), newPIN.byteString.size(), sig(oldPIN) | (sig(newPIN) << 16)); return IN(callee_rv); }
CK_RV Token::loginSO(ByteString& pin) { vp_call(K_TOK_LOGIN_SO, pin.byteString.size(), sig(pin), 0); return IN(callee_rv); }
CK_RV Token::loginUser(ByteString& pin) { vp_call(K_TOK_LOGIN_USER, pin.byteString.size(), sig(pin), 0); return IN(callee_rv); }
CK_RV Token::reAuthenticate(ByteString& pin) { vp_call(K_TOK_REAUTH, pin.byteString.size(), sig(pin), 0); return IN(callee_rv); }
void Token::logout() { vp_call(K_TOK_LOGOUT, 0, 0, 0); }

static long vp_slotmgr_store[4], vp_sm_store[4], vp_sos_store[4];
#define MK() VP_MK_HSM(); hsm->slotManager = (SlotManager*)(void*)&vp_slotmgr_store[0]; hsm->sessionManager = (SessionManager*)(void*)&vp_sm_store[0]; \
	hsm->sessionObjectStore = (SessionObjectStore*)(void*)&vp_sos_store[0]; \
	unsigned char pin[8]; unsigned char pin2[8]; for (int i = 0; i < 8; i++) { pin[i] = vp_in_pin[i]; pin2[i] = vp_in_pin2[i]; } \
	CK_UTF8CHAR_PTR pPin = IN(pinNull) ? (CK_UTF8CHAR_PTR)0 : &pin[0]; CK_UTF8CHAR_PTR pPin2 = IN(pin2Null) ? (CK_UTF8CHAR_PTR)0 : &pin2[0]

extern "C" CK_RV vp_C_InitToken(void) { MK(); unsigned char label[32]; label[0] = 'L'; return hsm->C_InitToken(IN(slotArg), pPin, IN(pinLen), &label[0]); }
extern "C" CK_RV vp_C_InitPIN(void) { MK(); return hsm->C_InitPIN(SES(HSESSION), pPin, IN(pinLen)); }
extern "C" CK_RV vp_C_SetPIN(void) { MK(); return hsm->C_SetPIN(SES(HSESSION), pPin, IN(pinLen), pPin2, IN(pin2Len)); }
extern "C" CK_RV vp_C_OpenSession(void) { MK(); CK_SESSION_HANDLE h = 0xdeadUL; CK_RV rv = hsm->C_OpenSession(IN(slotArg), IN(flags), NULL_PTR, NULL_PTR, IN(phNull) ? (CK_SESSION_HANDLE_PTR)0 : &h); OUT(ph) = h; return rv; }
extern "C" CK_RV vp_C_CloseSession(void) { MK(); return hsm->C_CloseSession(SES(HSESSION)); }
extern "C" CK_RV vp_C_CloseAllSessions(void) { MK(); return hsm->C_CloseAllSessions(IN(slotArg)); }
extern "C" CK_RV vp_C_Login(void) { MK(); return hsm->C_Login(SES(HSESSION), IN(userType), pPin, IN(pinLen)); }
extern "C" CK_RV vp_C_Logout(void) { MK(); return hsm->C_Logout(SES(HSESSION)); }
