/* The session / login / PIN entry points of SoftHSM.cpp, whole functions, against a ghost CALL LOG of what they ask of and
 * tell to SlotManager, SessionManager, HandleManager, SessionObjectStore, Slot and Token (code, arguments, order).
 * C14: C_InitToken touches the token only when NO session is open on that very slot and with exactly the SO PIN given.
 * C04: PIN length limits (new PIN 4..255), who may change which PIN in which state, old/new PIN passed in this order.
 * C03: C_Login(SO) refused while a read-only session exists on the session's slot; user type dispatch; re-authentication.
 * C11/C01: close / close-all / logout tell BOTH the handle manager and the session object store, with this handle / slot,
 *          before the session manager closes; logout happens first. */
#include "shared.h"
CK_ULONG vp_in[VP_IN_N];
unsigned char vp_in_pin[8];
unsigned char vp_in_pin2[8];
CK_ULONG vp_out[VP_OUT_N];
CK_ULONG vp_g_calls[VP_CALLS_MAX * 4];
CK_RV vp_rv;
VP_SOFTHSM_CALLEE_CONTRACTS

#define RV __CPROVER_return_value
#define NC OUT(ncalls)
#define IS(i, code, a0) (CALL(i, 0) == (code) && CALL(i, 1) == (a0))
#define IS2(i, code, a0, a1) (CALL(i, 0) == (code) && CALL(i, 1) == (a0) && CALL(i, 2) == (a1))
#define IS3(i, code, a0, a1, a2) (CALL(i, 0) == (code) && CALL(i, 1) == (a0) && CALL(i, 2) == (a1) && CALL(i, 3) == (a2))
#define PIN1 PINSIG(vp_in_pin, IN(pinLen))
#define PIN2 PINSIG(vp_in_pin2, IN(pin2Len))
#define LEN_OK(l) ((l) >= 4 && (l) <= 255)
#define FRESH (NC == 0 && VP_FRESH_GHOST)
#define FRAME __CPROVER_object_whole(vp_out), __CPROVER_object_whole(vp_g_calls), VP_SOFTHSM_FRAME
#define STATE VP_SES_STATE
static int called(CK_ULONG code) { for (CK_ULONG i = 0; i < VP_CALLS_MAX; i++) if (i < NC && CALL(i, 0) == code) return 1; return 0; }
/* no call that changes anything (queries - get slot / have session / get session - do not count) */
static int no_mutation(void)
{
  for (CK_ULONG i = 0; i < VP_CALLS_MAX; i++)
    if (i < NC && !(CALL(i, 0) == K_SLOTMGR_GET || CALL(i, 0) == K_SM_HAVE_SESSION || CALL(i, 0) == K_SM_HAVE_RO || CALL(i, 0) == K_SM_GET_SESSION)) return 0;
  return SFX(SETREAUTH_N) == 0;
}
#define INV_LOGIN (!(TOK(SO) && TOK(USER)) && (!TOK(SO) || SES(RW)))

/* ---------------------------------------------------------------- C_InitToken */
CK_RV vp_C_InitToken(void)
__CPROVER_requires(FRESH)
__CPROVER_ensures(NC <= VP_CALLS_MAX)
__CPROVER_ensures(!SES(INIT) ==> (RV == CKR_CRYPTOKI_NOT_INITIALIZED && NC == 0))
__CPROVER_ensures((SES(INIT) && IN(slotNull)) ==> (RV == CKR_SLOT_ID_INVALID && no_mutation()))
/* C14: any session on this slot -> refused, token untouched; the question is asked about THIS slot */
__CPROVER_ensures((SES(INIT) && !IN(slotNull)) ==> (NC >= 2 && IS(0, K_SLOTMGR_GET, IN(slotArg)) && IS(1, K_SM_HAVE_SESSION, IN(slotArg))))
__CPROVER_ensures((SES(INIT) && !IN(slotNull) && IN(haveSession)) ==> (RV == CKR_SESSION_EXISTS && no_mutation()))
__CPROVER_ensures((SES(INIT) && !IN(slotNull) && !IN(haveSession) && IN(pinNull)) ==> (RV == CKR_ARGUMENTS_BAD && no_mutation()))
__CPROVER_ensures((SES(INIT) && !IN(slotNull) && !IN(haveSession) && !IN(pinNull) && !LEN_OK(IN(pinLen))) ==> (RV == CKR_PIN_INCORRECT && no_mutation()))
__CPROVER_ensures(called(K_SLOT_INIT_TOKEN) ==> (NC == 3 && IS3(2, K_SLOT_INIT_TOKEN, IN(pinLen), PIN1, 'L') && RV == IN(callee_rv) && !IN(haveSession) && LEN_OK(IN(pinLen))))
__CPROVER_ensures((SES(INIT) && !IN(slotNull) && !IN(haveSession) && !IN(pinNull) && LEN_OK(IN(pinLen))) ==> called(K_SLOT_INIT_TOKEN))
__CPROVER_assigns(FRAME);

/* ---------------------------------------------------------------- C_InitPIN */
CK_RV vp_C_InitPIN(void)
__CPROVER_requires(FRESH && INV_LOGIN)
__CPROVER_ensures(NC <= 1)
__CPROVER_ensures((!SES(INIT) || !SES(VALID)) ==> (RV != CKR_OK && NC == 0))
/* only the SO, in its R/W session */
__CPROVER_ensures((SES(INIT) && SES(VALID) && STATE != CKS_RW_SO_FUNCTIONS) ==> (RV == CKR_USER_NOT_LOGGED_IN && NC == 0))
__CPROVER_ensures((SES(INIT) && SES(VALID) && STATE == CKS_RW_SO_FUNCTIONS && !SES(TOKEN_NULL) && IN(pinNull)) ==> (RV == CKR_ARGUMENTS_BAD && NC == 0))
__CPROVER_ensures((SES(INIT) && SES(VALID) && STATE == CKS_RW_SO_FUNCTIONS && !SES(TOKEN_NULL) && !IN(pinNull) && !LEN_OK(IN(pinLen))) ==> (RV == CKR_PIN_LEN_RANGE && NC == 0))
__CPROVER_ensures((NC == 1) ==> (IS2(0, K_TOK_INIT_USER_PIN, IN(pinLen), PIN1) && RV == IN(callee_rv) && STATE == CKS_RW_SO_FUNCTIONS && LEN_OK(IN(pinLen))))
__CPROVER_ensures((SES(INIT) && SES(VALID) && STATE == CKS_RW_SO_FUNCTIONS && !SES(TOKEN_NULL) && !IN(pinNull) && LEN_OK(IN(pinLen))) ==> (NC == 1))
__CPROVER_assigns(FRAME);

/* ---------------------------------------------------------------- C_SetPIN */
CK_RV vp_C_SetPIN(void)
__CPROVER_requires(FRESH && INV_LOGIN)
__CPROVER_ensures(NC <= 1)
__CPROVER_ensures((!SES(INIT) || !SES(VALID) || IN(pinNull) || IN(pin2Null)) ==> (RV != CKR_OK && NC == 0))
/* C04: the NEW PIN must be 4..255 bytes, whatever the old one looks like */
__CPROVER_ensures((SES(INIT) && SES(VALID) && !IN(pinNull) && !IN(pin2Null) && !LEN_OK(IN(pin2Len))) ==> (RV == CKR_PIN_LEN_RANGE && NC == 0))
/* who changes what: the user PIN in a R/W public or R/W user session, the SO PIN in the SO session, nothing in a R/O session */
__CPROVER_ensures((NC == 1 && (STATE == CKS_RW_PUBLIC_SESSION || STATE == CKS_RW_USER_FUNCTIONS)) ==> IS3(0, K_TOK_SET_USER_PIN, IN(pinLen), IN(pin2Len), PIN1 | (PIN2 << 16)))
__CPROVER_ensures((NC == 1 && STATE == CKS_RW_SO_FUNCTIONS) ==> IS3(0, K_TOK_SET_SO_PIN, IN(pinLen), IN(pin2Len), PIN1 | (PIN2 << 16)))
__CPROVER_ensures((NC == 1) ==> (RV == IN(callee_rv) && LEN_OK(IN(pin2Len)) && (STATE == CKS_RW_PUBLIC_SESSION || STATE == CKS_RW_USER_FUNCTIONS || STATE == CKS_RW_SO_FUNCTIONS)))
__CPROVER_ensures((SES(INIT) && SES(VALID) && !IN(pinNull) && !IN(pin2Null) && LEN_OK(IN(pin2Len)) && !SES(TOKEN_NULL) && !SES(RW)) ==> (RV == CKR_SESSION_READ_ONLY && NC == 0))
__CPROVER_ensures((SES(INIT) && SES(VALID) && !IN(pinNull) && !IN(pin2Null) && LEN_OK(IN(pin2Len)) && !SES(TOKEN_NULL) && SES(RW)) ==> (NC == 1))
__CPROVER_assigns(FRAME);

/* ---------------------------------------------------------------- C_OpenSession */
CK_RV vp_C_OpenSession(void)
__CPROVER_requires(FRESH && !IN(phNull))
__CPROVER_ensures(NC <= 4)
__CPROVER_ensures(!SES(INIT) ==> (RV == CKR_CRYPTOKI_NOT_INITIALIZED && NC == 0 && OUT(ph) == 0xdeadUL))
/* the session manager decides; its refusal is passed on and no handle is issued */
__CPROVER_ensures(SES(INIT) ==> (NC >= 2 && IS(0, K_SLOTMGR_GET, IN(slotArg)) && IS2(1, K_SM_OPEN, IN(slotNull) ? 0 : 1, IN(flags))))
__CPROVER_ensures((SES(INIT) && IN(open_rv) != CKR_OK) ==> (RV == IN(open_rv) && NC == 2 && OUT(ph) == 0xdeadUL))
/* success: the handle handed out is the one the handle manager issued for this session on this slot */
__CPROVER_ensures((SES(INIT) && IN(open_rv) == CKR_OK && !IN(smGetNull)) ==> (RV == CKR_OK && NC == 4 && IS(2, K_SM_GET_SESSION, IN(open_sid)) && IS2(3, K_HM_ADD_SESSION, IN(slotArg), 1) && OUT(ph) == IN(hm_newHandle)))
__CPROVER_ensures((RV == CKR_OK) ==> (called(K_HM_ADD_SESSION) && IN(open_rv) == CKR_OK))
__CPROVER_assigns(FRAME);

/* ---------------------------------------------------------------- C_CloseSession */
CK_RV vp_C_CloseSession(void)
__CPROVER_requires(FRESH)
__CPROVER_ensures((!SES(INIT) || !SES(VALID)) ==> (RV != CKR_OK && NC == 0))
/* C11: the handle's objects die in the handle manager AND in the session object store, then the session itself (by the session manager's id) */
__CPROVER_ensures((SES(INIT) && SES(VALID)) ==> (NC == 3 && IS(0, K_HM_SESSION_CLOSED, SES(HSESSION)) && IS(1, K_SOS_SESSION_CLOSED, SES(HSESSION)) &&
                                                  IS(2, K_SM_CLOSE_SESSION, VP_SM_HANDLE(SES(HSESSION))) && RV == IN(callee_rv)))
__CPROVER_assigns(FRAME);

/* ---------------------------------------------------------------- C_CloseAllSessions */
CK_RV vp_C_CloseAllSessions(void)
__CPROVER_requires(FRESH)
__CPROVER_ensures(!SES(INIT) ==> (RV == CKR_CRYPTOKI_NOT_INITIALIZED && NC == 0))
__CPROVER_ensures((SES(INIT) && IN(slotNull)) ==> (RV == CKR_SLOT_ID_INVALID && no_mutation()))
__CPROVER_ensures((SES(INIT) && !IN(slotNull) && IN(slotTokenNull)) ==> (RV == CKR_TOKEN_NOT_PRESENT && no_mutation()))
__CPROVER_ensures((SES(INIT) && !IN(slotNull) && !IN(slotTokenNull)) ==> (NC == 4 && IS(0, K_SLOTMGR_GET, IN(slotArg)) && IS(1, K_HM_ALL_CLOSED, IN(slotArg)) &&
                                                  IS(2, K_SOS_ALL_CLOSED, IN(slotArg)) && IS(3, K_SM_CLOSE_ALL, 1) && RV == IN(callee_rv)))
__CPROVER_assigns(FRAME);

/* ---------------------------------------------------------------- C_Login */
CK_RV vp_C_Login(void)
__CPROVER_requires(FRESH)
__CPROVER_ensures(NC <= 2)
__CPROVER_ensures((!SES(INIT) || !SES(VALID) || IN(pinNull) || SES(TOKEN_NULL)) ==> (RV != CKR_OK && NC == 0 && SFX(SETREAUTH_N) == 0))
#define LOGIN_ARGS (SES(INIT) && SES(VALID) && !IN(pinNull) && !SES(TOKEN_NULL))
/* C03: no SO login while a read-only session exists on the session's own slot */
__CPROVER_ensures((LOGIN_ARGS && IN(userType) == CKU_SO) ==> (NC >= 1 && IS(0, K_SM_HAVE_RO, SES(SLOTID))))
__CPROVER_ensures((LOGIN_ARGS && IN(userType) == CKU_SO && IN(haveRO)) ==> (RV == CKR_SESSION_READ_ONLY_EXISTS && NC == 1))
__CPROVER_ensures((LOGIN_ARGS && IN(userType) == CKU_SO && !IN(haveRO)) ==> (NC == 2 && IS2(1, K_TOK_LOGIN_SO, IN(pinLen), PIN1) && RV == IN(callee_rv)))
__CPROVER_ensures((LOGIN_ARGS && IN(userType) == CKU_USER) ==> (NC == 1 && IS2(0, K_TOK_LOGIN_USER, IN(pinLen), PIN1) && RV == IN(callee_rv)))
/* re-authentication only when an operation asked for it; the flag is cleared only by a successful one */
__CPROVER_ensures((LOGIN_ARGS && IN(userType) == CKU_CONTEXT_SPECIFIC && !SES(REAUTH)) ==> (RV == CKR_OPERATION_NOT_INITIALIZED && NC == 0))
__CPROVER_ensures((LOGIN_ARGS && IN(userType) == CKU_CONTEXT_SPECIFIC && SES(REAUTH)) ==> (NC == 1 && IS2(0, K_TOK_REAUTH, IN(pinLen), PIN1) && RV == IN(callee_rv)))
__CPROVER_ensures((SFX(SETREAUTH_N) != 0) ==> (SFX(SETREAUTH_N) == 1 && SFX(SETREAUTH_LAST) == 0 && RV == CKR_OK && IN(userType) == CKU_CONTEXT_SPECIFIC && called(K_TOK_REAUTH)))
__CPROVER_ensures((LOGIN_ARGS && IN(userType) == CKU_CONTEXT_SPECIFIC && SES(REAUTH) && IN(callee_rv) == CKR_OK) ==> (SFX(SETREAUTH_N) == 1))
__CPROVER_ensures((LOGIN_ARGS && IN(userType) != CKU_SO && IN(userType) != CKU_USER && IN(userType) != CKU_CONTEXT_SPECIFIC) ==> (RV == CKR_USER_TYPE_INVALID && NC == 0))
__CPROVER_assigns(FRAME);

/* ---------------------------------------------------------------- C_Logout */
CK_RV vp_C_Logout(void)
__CPROVER_requires(FRESH)
__CPROVER_ensures((!SES(INIT) || !SES(VALID) || SES(TOKEN_NULL)) ==> (RV != CKR_OK && NC == 0))
/* C01/C11: logout, then the private handles and the private session objects of this slot are purged */
__CPROVER_ensures((SES(INIT) && SES(VALID) && !SES(TOKEN_NULL)) ==> (RV == CKR_OK && NC == 3 && IS(0, K_TOK_LOGOUT, 0) && IS(1, K_HM_TOKEN_LOGGED_OUT, SES(SLOTID)) && IS(2, K_SOS_TOKEN_LOGGED_OUT, SES(SLOTID))))
__CPROVER_assigns(FRAME);

#define HARNESS(name, covers) void vp_call_##name(void) { vp_rv = vp_##name(); } \
  void h_##name(void) { VP_HAVOC_SOFTHSM(); __CPROVER_havoc_object(vp_in); __CPROVER_havoc_object(vp_in_pin); __CPROVER_havoc_object(vp_in_pin2); vp_call_##name(); covers }
HARNESS(C_InitToken, VP_COVER(vp_rv == CKR_OK && NC == 3); VP_COVER(vp_rv == CKR_SESSION_EXISTS); VP_COVER(vp_rv == CKR_PIN_INCORRECT && IN(pinLen) == 256);)
HARNESS(C_InitPIN, VP_COVER(vp_rv == CKR_OK && NC == 1 && IN(pinLen) == 255); VP_COVER(vp_rv == CKR_USER_NOT_LOGGED_IN && TOK(USER)); VP_COVER(vp_rv == CKR_PIN_LEN_RANGE && IN(pinLen) == 3);)
HARNESS(C_SetPIN, VP_COVER(vp_rv == CKR_OK && NC == 1 && CALL(0, 0) == K_TOK_SET_SO_PIN && IN(pinLen) == 300); VP_COVER(vp_rv == CKR_OK && CALL(0, 0) == K_TOK_SET_USER_PIN && STATE == CKS_RW_PUBLIC_SESSION); VP_COVER(vp_rv == CKR_PIN_LEN_RANGE && IN(pin2Len) == 256 && IN(pinLen) == 4); VP_COVER(vp_rv == CKR_SESSION_READ_ONLY);)
HARNESS(C_OpenSession, VP_COVER(vp_rv == CKR_OK && NC == 4); VP_COVER(vp_rv == CKR_SESSION_HANDLE_INVALID); VP_COVER(vp_rv == CKR_SLOT_ID_INVALID && IN(slotNull));)
HARNESS(C_CloseSession, VP_COVER(vp_rv == CKR_OK && NC == 3); VP_COVER(vp_rv == CKR_SESSION_HANDLE_INVALID);)
HARNESS(C_CloseAllSessions, VP_COVER(vp_rv == CKR_OK && NC == 4); VP_COVER(vp_rv == CKR_TOKEN_NOT_PRESENT);)
HARNESS(C_Login, VP_COVER(vp_rv == CKR_OK && NC == 2); VP_COVER(vp_rv == CKR_SESSION_READ_ONLY_EXISTS); VP_COVER(vp_rv == CKR_OK && SFX(SETREAUTH_N) == 1); VP_COVER(vp_rv == CKR_PIN_INCORRECT && IN(userType) == CKU_USER); VP_COVER(vp_rv == CKR_USER_TYPE_INVALID);)
HARNESS(C_Logout, VP_COVER(vp_rv == CKR_OK && NC == 3); VP_COVER(vp_rv == CKR_GENERAL_ERROR);)
