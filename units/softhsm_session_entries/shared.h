#ifndef VP_SENT_SHARED_H
#define VP_SENT_SHARED_H
#include "softhsm_env.h"
/* inputs */
enum vp_in_idx { I_slotNull, I_slotTokenNull, I_haveSession, I_haveRO, I_pinNull, I_pin2Null, I_pinLen, I_pin2Len, I_callee_rv, I_slotArg, I_userType, I_flags,
                 I_open_rv, I_open_sid, I_smGetNull, I_hm_newHandle, I_phNull, VP_IN_N };
/* call log: code, a0, a1, a2 */
enum vp_call { K_NONE, K_SM_HAVE_SESSION, K_SM_HAVE_RO, K_SLOT_INIT_TOKEN, K_TOK_INIT_USER_PIN, K_TOK_SET_USER_PIN, K_TOK_SET_SO_PIN, K_TOK_LOGIN_SO, K_TOK_LOGIN_USER,
               K_TOK_REAUTH, K_TOK_LOGOUT, K_HM_TOKEN_LOGGED_OUT, K_SOS_TOKEN_LOGGED_OUT, K_HM_SESSION_CLOSED, K_SOS_SESSION_CLOSED, K_SM_CLOSE_SESSION,
               K_HM_ALL_CLOSED, K_SOS_ALL_CLOSED, K_SM_CLOSE_ALL, K_SM_OPEN, K_SM_GET_SESSION, K_HM_ADD_SESSION, K_SLOTMGR_GET };
#define VP_CALLS_MAX 6
enum vp_out_idx { O_ncalls, O_ph, VP_OUT_N };
VP_C_BEGIN
extern CK_ULONG vp_in[VP_IN_N];
extern unsigned char vp_in_pin[8];
extern unsigned char vp_in_pin2[8];
extern CK_ULONG vp_out[VP_OUT_N];
extern CK_ULONG vp_g_calls[VP_CALLS_MAX * 4];
VP_C_END
#define IN(x) vp_in[(int)I_##x]
#define OUT(x) vp_out[(int)O_##x]
#define CALL(i, f) vp_g_calls[(i) * 4 + (f)]
/* a PIN as the log records it: length, and the first two bytes */
#define PINSIG(buf, len) ((len) == 0 ? 0 : ((CK_ULONG)(buf)[0] | ((len) > 1 ? ((CK_ULONG)(buf)[1] << 8) : 0)))
#define VP_SM_HANDLE(h) ((h) ^ 0x5a5aUL)   /* Session::getHandle(): the session manager's own id differs from the application's handle */
#endif
