// (cbmc: included at the end of the sliced Token.cpp)
#include "shared.h"

static ByteString pin_of(int k, CK_ULONG len) { if (len > VP_PIN_MAX) len = VP_PIN_MAX; ByteString b(&vp_in_pins[k * VP_PIN_MAX], len); return b; }

static Token* mk(SecureDataManager*& sdm_out)
{
	Token* t = new Token();                 // real constructor (blank token, own SecureDataManager)
	t->token = IN(tokenNull) ? (ObjectStoreToken*)0 : (ObjectStoreToken*)(void*)&vp_ost_store[0];
	ByteString so, user;
	if (IN(sopin_set)) so = vp_wrap(pin_of(0, IN(sopin_len)));
	if (IN(userpin_set)) user = vp_wrap(pin_of(1, IN(userpin_len)));
	vp_store_so = so; vp_store_user = user;
	if (IN(sdmNull)) { t->sdm = NULL; sdm_out = NULL; return t; }
	SecureDataManager* s = new SecureDataManager(so, user);
	s->soLoggedIn = IN(so_in) != 0; s->userLoggedIn = IN(user_in) != 0;
	t->sdm = s; sdm_out = s;
	return t;
}
static void probe(Token* t)
{
	OUT(so_after) = t->isSOLoggedIn(); OUT(user_after) = t->isUserLoggedIn();
	OUT(sdm_so_len) = t->sdm ? t->sdm->soEncryptedKey.size() : 0;
	OUT(sdm_user_len) = t->sdm ? t->sdm->userEncryptedKey.size() : 0;
	OUT(valid) = t->valid;
}

extern "C" void vp_login(void)
{
	SecureDataManager* s; Token* t = mk(s);
	ByteString pin = pin_of(2, IN(arg_len));
	OUT(rv) = IN(which) ? t->loginUser(pin) : t->loginSO(pin);
	probe(t);
}

// which: 0 setSOPIN(old = arg, new = arg2), 1 setUserPIN(old, new), 2 initUserPIN(arg2)
extern "C" void vp_setpin(void)
{
	SecureDataManager* s; Token* t = mk(s);
	ByteString oldp = pin_of(2, IN(arg_len)), newp = pin_of(3, IN(arg2_len));
	ByteString so_before, user_before;
	if (t->sdm) { so_before = t->sdm->soEncryptedKey; user_before = t->sdm->userEncryptedKey; }
	OUT(rv) = IN(which) == 0 ? t->setSOPIN(oldp, newp) : IN(which) == 1 ? t->setUserPIN(oldp, newp) : t->initUserPIN(newp);
	probe(t);
	if (t->sdm)
	{
		// does the new PIN (and the old one) unlock the changed blob now?  is the other user's blob untouched?
		SecureDataManager v(t->sdm->soEncryptedKey, t->sdm->userEncryptedKey);
		OUT(relogin_new_ok) = IN(which) == 0 ? v.loginSO(newp) : v.loginUser(newp);
		SecureDataManager w(t->sdm->soEncryptedKey, t->sdm->userEncryptedKey);
		OUT(relogin_old_ok) = IN(which) == 0 ? w.loginSO(pin_of(0, IN(sopin_len))) : w.loginUser(pin_of(1, IN(userpin_len)));
		OUT(other_unchanged) = IN(which) == 0 ? (t->sdm->userEncryptedKey == user_before) : (t->sdm->soEncryptedKey == so_before);
	}
}

extern "C" void vp_createToken(void)
{
	SecureDataManager* s; Token* t = mk(s);
	unsigned char label[32];
	ByteString pin = pin_of(2, IN(arg_len));
	long os_store[8];
	OUT(rv) = t->createToken(IN(osNull) ? (ObjectStore*)0 : (ObjectStore*)(void*)&os_store[0], pin, IN(labelNull) ? (CK_UTF8CHAR_PTR)0 : &label[0]);
	probe(t);
}

extern "C" void vp_crypt(void)
{
	SecureDataManager* s; Token* t = mk(s);
	ByteString a, b;
	OUT(ret_bool) = 0;
	bool r = IN(which) ? t->decrypt(a, b) : t->encrypt(a, b);
	OUT(rv) = r ? 1 : 0;
	probe(t);
}
