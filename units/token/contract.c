/* Token.cpp: login preconditions and outcomes (C03), "only the current PIN authenticates; PIN changes are exact and
 * lossless" (C04, protocol logic; the cryptographic fact 'a blob opens iff the PIN is the wrapped one' is the assumed
 * contract of SecureDataManager), token (re-)initialisation (C14), attribute cipher only while logged in (C01). */
#include "shared.h"
CK_ULONG vp_in[VP_IN_N];
unsigned char vp_in_pins[4 * VP_PIN_MAX];
CK_ULONG vp_out[VP_OUT_N];
CK_RV vp_rv;

#define CLIP(l) ((l) > VP_PIN_MAX ? VP_PIN_MAX : (l))
static int pin_eq(int a, CK_ULONG la, int b, CK_ULONG lb)
{
  la = CLIP(la); lb = CLIP(lb);
  if (la != lb) return 0;
  for (CK_ULONG i = 0; i < VP_PIN_MAX; i++) if (i < la && vp_in_pins[a * VP_PIN_MAX + i] != vp_in_pins[b * VP_PIN_MAX + i]) return 0;
  return 1;
}
/* the stored blob equals wrap(PIN k) */
static int stored_is_wrap_of(int k, CK_ULONG len)
{
  len = CLIP(len);
  if (OUT(store_len) != len + 1 || OUT(store_b0) != 0xA5) return 0;
  if (len > 0 && OUT(store_b1) != vp_in_pins[k * VP_PIN_MAX + 0]) return 0;
  if (len > 1 && OUT(store_b2) != vp_in_pins[k * VP_PIN_MAX + 1]) return 0;
  if (len > 2 && OUT(store_b3) != vp_in_pins[k * VP_PIN_MAX + 2]) return 0;
  if (len > 3 && OUT(store_b4) != vp_in_pins[k * VP_PIN_MAX + 3]) return 0;
  return 1;
}
#define ARG_IS_SO (IN(sopin_set) && pin_eq(2, IN(arg_len), 0, IN(sopin_len)))
#define ARG_IS_USER (IN(userpin_set) && pin_eq(2, IN(arg_len), 1, IN(userpin_len)))
#define SO_IN (IN(so_in) != 0)
#define USER_IN (IN(user_in) != 0)
#define STATE_UNCHANGED (OUT(so_after) == SO_IN && OUT(user_after) == USER_IN)
#define NOTHING_STORED (OUT(store_so_n) == 0 && OUT(store_user_n) == 0)
#define FRESH (OUT(flags_set_n) == 0 && OUT(store_so_n) == 0 && OUT(store_user_n) == 0 && OUT(reset_n) == 0 && OUT(newtoken_n) == 0 && OUT(destroy_n) == 0)
#define PRE __CPROVER_requires(FRESH && !(SO_IN && USER_IN) && IN(sopin_len) <= VP_PIN_MAX && IN(userpin_len) <= VP_PIN_MAX && IN(arg_len) <= VP_PIN_MAX && IN(arg2_len) <= VP_PIN_MAX) \
            /* a PIN that is set is non-empty (C_InitToken / C_InitPIN / C_SetPIN enforce MIN_PIN_LEN); logged in => that PIN is set */ \
            __CPROVER_requires((!IN(sopin_set) || IN(sopin_len) >= 1) && (!IN(userpin_set) || IN(userpin_len) >= 1) && (!SO_IN || IN(sopin_set)) && (!USER_IN || IN(userpin_set)) && (!IN(sdmNull) || (!SO_IN && !USER_IN)))
#define FRAME __CPROVER_assigns(__CPROVER_object_whole(vp_out))
#define RVV OUT(rv)

/* ---- loginSO (which = 0) / loginUser (which = 1) */
#define W IN(which)
void vp_login(void)
PRE
__CPROVER_requires(!IN(tokenNull) && W <= 1)
__CPROVER_ensures(IN(sdmNull) ==> (RVV == CKR_GENERAL_ERROR))
/* C03: somebody already logged in: refused, nothing changes (not even a PIN counter flag) */
__CPROVER_ensures((!IN(sdmNull) && (W == 0 ? USER_IN : SO_IN)) ==> (RVV == CKR_USER_ANOTHER_ALREADY_LOGGED_IN && STATE_UNCHANGED && OUT(flags_set_n) == 0))
__CPROVER_ensures((!IN(sdmNull) && (W == 0 ? SO_IN : USER_IN)) ==> (RVV == CKR_USER_ALREADY_LOGGED_IN && STATE_UNCHANGED && OUT(flags_set_n) == 0))
__CPROVER_ensures((!IN(sdmNull) && W == 1 && !SO_IN && !USER_IN && !IN(userpin_set)) ==> (RVV == CKR_USER_PIN_NOT_INITIALIZED && STATE_UNCHANGED))
/* C04: success <=> nobody was logged in and the PIN is the current one of that user type */
__CPROVER_ensures((RVV == CKR_OK) ==> (!SO_IN && !USER_IN && (W == 0 ? ARG_IS_SO : ARG_IS_USER)))
__CPROVER_ensures((!IN(sdmNull) && !SO_IN && !USER_IN && IN(getflags_ok) && (W == 0 ? ARG_IS_SO : ARG_IS_USER)) ==> (RVV == CKR_OK))
__CPROVER_ensures((RVV == CKR_OK) ==> (OUT(so_after) == (W == 0) && OUT(user_after) == (W == 1)))
__CPROVER_ensures((!IN(sdmNull) && !SO_IN && !USER_IN && IN(getflags_ok) && (W == 1 ? IN(userpin_set) : 1) && !(W == 0 ? ARG_IS_SO : ARG_IS_USER)) ==> (RVV == CKR_PIN_INCORRECT))
/* C03: a failing login leaves the login state unchanged and writes no PIN */
__CPROVER_ensures((RVV != CKR_OK) ==> STATE_UNCHANGED)
__CPROVER_ensures(NOTHING_STORED)
/* the only store write is the PIN-count-low flag of that user type */
__CPROVER_ensures((OUT(flags_set_n) > 0) ==> (OUT(flags_set_n) == 1 && (OUT(flags_last) | (W == 0 ? CKF_SO_PIN_COUNT_LOW : CKF_USER_PIN_COUNT_LOW)) == (IN(flags0) | (W == 0 ? CKF_SO_PIN_COUNT_LOW : CKF_USER_PIN_COUNT_LOW))))
FRAME;

/* ---- setSOPIN (0) / setUserPIN (1) / initUserPIN (2) */
#define OLD_OK (W == 0 ? ARG_IS_SO : ARG_IS_USER)
void vp_setpin(void)
PRE
__CPROVER_requires(!IN(tokenNull) && W <= 2 && !IN(sdmNull))
/* reachable states (C_SetPIN / C_InitPIN switch on the session state): setSOPIN and initUserPIN with the SO logged in, setUserPIN without */
__CPROVER_requires((W == 1) ? !SO_IN : SO_IN)
/* C04: a wrong old PIN changes nothing: nothing stored, both PINs still work, login state unchanged */
__CPROVER_ensures((W <= 1 && IN(getflags_ok) && !OLD_OK) ==> (RVV == CKR_PIN_INCORRECT))
__CPROVER_ensures((RVV != CKR_OK && W <= 1 && !OLD_OK) ==> (NOTHING_STORED && STATE_UNCHANGED && OUT(other_unchanged) && OUT(relogin_old_ok) == (W == 0 ? (IN(sopin_set) != 0) : (IN(userpin_set) != 0))))
/* success needs the right old PIN and a non-empty new one */
__CPROVER_ensures((RVV == CKR_OK && W <= 1) ==> OLD_OK)
__CPROVER_ensures((RVV == CKR_OK) ==> (IN(arg2_len) >= 1))
/* success: exactly the addressed blob is written, once; what is stored is the wrapping of the NEW PIN; the new PIN
 * opens it; the other user's blob is untouched; the login state is as before */
__CPROVER_ensures((RVV == CKR_OK) ==> ((W == 0 ? (OUT(store_so_n) == 1 && OUT(store_user_n) == 0) : (OUT(store_user_n) == 1 && OUT(store_so_n) == 0)) && stored_is_wrap_of(3, IN(arg2_len))))
__CPROVER_ensures((RVV == CKR_OK) ==> (OUT(relogin_new_ok) && OUT(other_unchanged) && STATE_UNCHANGED))
/* ... and the old PIN no longer opens it unless it equals the new one */
__CPROVER_ensures((RVV == CKR_OK && W <= 1 && OUT(relogin_old_ok)) ==> pin_eq(2, IN(arg_len), 3, IN(arg2_len)))
/* a failing call never writes the other user's PIN */
__CPROVER_ensures((W == 0) ? (OUT(store_user_n) == 0) : (OUT(store_so_n) == 0))
FRAME;

/* ---- createToken */
void vp_createToken(void)
PRE
__CPROVER_requires(!IN(osNull) && !IN(labelNull) && (IN(tokenNull) || !IN(sdmNull)) && (!IN(tokenNull) || (!IN(sopin_set) && !IN(userpin_set) && !SO_IN && !USER_IN)))
/* C14: an initialised token is reset only with the correct SO PIN ... */
__CPROVER_ensures((!IN(tokenNull) && IN(sopin_set) && !ARG_IS_SO) ==> (RVV != CKR_OK && OUT(reset_n) == 0 && OUT(newtoken_n) == 0 && NOTHING_STORED))
__CPROVER_ensures((!IN(tokenNull) && IN(getflags_ok) && IN(sopin_set) && !ARG_IS_SO) ==> (RVV == CKR_PIN_INCORRECT))
/* ... and then loses its user PIN, keeps its SO PIN, and nobody is logged in */
__CPROVER_ensures((!IN(tokenNull) && RVV == CKR_OK) ==> (OUT(reset_n) == 1 && OUT(newtoken_n) == 0 && OUT(sdm_user_len) == 0 && OUT(sdm_so_len) == (IN(sopin_set) ? IN(sopin_len) + 1 : 0) && !OUT(so_after) && !OUT(user_after)))
/* a blank slot: a new token with exactly the given SO PIN; an incomplete token is destroyed again */
__CPROVER_ensures((IN(tokenNull) && RVV == CKR_OK) ==> (OUT(newtoken_n) == 1 && OUT(store_so_n) == 1 && stored_is_wrap_of(2, IN(arg_len)) && IN(arg_len) >= 1 && OUT(destroy_n) == 0 && OUT(reset_n) == 0))
__CPROVER_ensures((IN(tokenNull) && RVV != CKR_OK && OUT(newtoken_n) > 0 && !IN(newTokenNull)) ==> (OUT(destroy_n) == 1))
__CPROVER_ensures((IN(tokenNull) && IN(arg_len) == 0) ==> (RVV != CKR_OK && OUT(newtoken_n) == 0))
FRAME;

/* ---- encrypt / decrypt */
void vp_crypt(void)
PRE
__CPROVER_requires(W <= 1 && !IN(tokenNull))
__CPROVER_ensures((RVV != 0) ==> (!IN(sdmNull) && (SO_IN || USER_IN)))
__CPROVER_ensures(IN(sdmNull) ==> (RVV == 0 && OUT(ret_bool) == 0))
__CPROVER_ensures(STATE_UNCHANGED && NOTHING_STORED)
FRAME;

#define HAVOC() do { __CPROVER_havoc_object(vp_in); __CPROVER_havoc_object(vp_in_pins); } while (0)
void vp_call_login(void) { vp_login(); }
void vp_call_setPIN(void) { vp_setpin(); }
void vp_call_createToken(void) { vp_createToken(); }
void vp_call_crypt(void) { vp_crypt(); }
void h_login(void) { HAVOC(); vp_call_login(); VP_COVER(RVV == CKR_OK && W == 0 && IN(arg_len) == 4); VP_COVER(RVV == CKR_OK && W == 1); VP_COVER(RVV == CKR_PIN_INCORRECT && W == 1 && IN(arg_len) == IN(userpin_len));
  VP_COVER(RVV == CKR_USER_ANOTHER_ALREADY_LOGGED_IN); VP_COVER(RVV == CKR_USER_PIN_NOT_INITIALIZED); }
void h_setpin(void) { HAVOC(); vp_call_setPIN(); VP_COVER(RVV == CKR_OK && W == 0); VP_COVER(RVV == CKR_OK && W == 1 && USER_IN); VP_COVER(RVV == CKR_OK && W == 1 && !USER_IN); VP_COVER(RVV == CKR_OK && W == 2);
  VP_COVER(RVV == CKR_PIN_INCORRECT && W == 1); }
void h_createToken(void) { HAVOC(); vp_call_createToken(); VP_COVER(RVV == CKR_OK && IN(tokenNull)); VP_COVER(RVV == CKR_OK && !IN(tokenNull) && IN(userpin_set)); VP_COVER(RVV == CKR_PIN_INCORRECT); VP_COVER(RVV == CKR_DEVICE_ERROR && OUT(destroy_n) == 1); }
void h_crypt(void) { HAVOC(); vp_call_crypt(); VP_COVER(RVV != 0); VP_COVER(RVV == 0 && !IN(sdmNull)); }
