// environment of Token.cpp (same translation unit under cbmc): the ASSUMED CONTRACT of SecureDataManager written as a
// model on the class's own fields, and a recording ObjectStoreToken / ObjectStore.
#include "config.h"
#include "Token.h"
#include "ObjectStore.h"
#include "shared.h"

// ---- SecureDataManager (assumed): blob = 0xA5 || PIN ; a PIN unlocks a blob iff it is exactly the wrapped one
static ByteString vp_wrap(const ByteString& pin) { ByteString b; b += (unsigned char)0xA5; for (size_t i = 0; i < pin.size(); i++) b += pin.const_byte_str()[i]; return b; }
SecureDataManager::SecureDataManager() { soLoggedIn = false; userLoggedIn = false; }
SecureDataManager::SecureDataManager(const ByteString& soPINBlob, const ByteString& userPINBlob) { soEncryptedKey = soPINBlob; userEncryptedKey = userPINBlob; soLoggedIn = false; userLoggedIn = false; }
SecureDataManager::~SecureDataManager() {}
void SecureDataManager::logout() { soLoggedIn = false; userLoggedIn = false; }
bool SecureDataManager::isSOLoggedIn() { return soLoggedIn; }
bool SecureDataManager::isUserLoggedIn() { return userLoggedIn; }
ByteString SecureDataManager::getSOPINBlob() { return soEncryptedKey; }
ByteString SecureDataManager::getUserPINBlob() { return userEncryptedKey; }
bool SecureDataManager::loginSO(const ByteString& soPIN)
{
	logout();                                              // (real login() logs out first)
	if (soEncryptedKey.size() == 0) return false;
	if (soEncryptedKey != vp_wrap(soPIN)) return false;
	soLoggedIn = true;
	return true;
}
bool SecureDataManager::loginUser(const ByteString& userPIN)
{
	logout();
	if (userEncryptedKey.size() == 0) return false;
	if (userEncryptedKey != vp_wrap(userPIN)) return false;
	userLoggedIn = true;
	return true;
}
bool SecureDataManager::setSOPIN(const ByteString& soPIN)
{
	if (soPIN.size() == 0) return false;
	if (soEncryptedKey.size() > 0 && !soLoggedIn) return false;
	soEncryptedKey = vp_wrap(soPIN);
	return true;
}
bool SecureDataManager::setUserPIN(const ByteString& userPIN)
{
	if (!soLoggedIn && !userLoggedIn) return false;
	if (userPIN.size() == 0) return false;
	userEncryptedKey = vp_wrap(userPIN);
	return true;
}
bool SecureDataManager::decrypt(const ByteString&, ByteString&) { OUT(ret_bool) = 7; return soLoggedIn || userLoggedIn; }
bool SecureDataManager::encrypt(const ByteString&, ByteString&) { OUT(ret_bool) = 7; return soLoggedIn || userLoggedIn; }

// ---- ObjectStoreToken / ObjectStore: recording ghost store
static void vp_record(const ByteString& b)
{
	OUT(store_len) = b.size();
	const unsigned char* p = b.const_byte_str();
	OUT(store_b0) = b.size() > 0 ? p[0] : 0; OUT(store_b1) = b.size() > 1 ? p[1] : 0; OUT(store_b2) = b.size() > 2 ? p[2] : 0;
	OUT(store_b3) = b.size() > 3 ? p[3] : 0; OUT(store_b4) = b.size() > 4 ? p[4] : 0;
}
static ByteString vp_store_so, vp_store_user;     // what the store currently holds
bool ObjectStoreToken::setSOPIN(const ByteString& soPINBlob) { OUT(store_so_n)++; vp_record(soPINBlob); if (!IN(store_ok)) return false; vp_store_so = soPINBlob; return true; }
bool ObjectStoreToken::setUserPIN(ByteString userPINBlob) { OUT(store_user_n)++; vp_record(userPINBlob); if (!IN(store_ok)) return false; vp_store_user = userPINBlob; return true; }
bool ObjectStoreToken::getSOPIN(ByteString& soPINBlob) { soPINBlob = vp_store_so; return true; }
bool ObjectStoreToken::getUserPIN(ByteString& userPINBlob) { userPINBlob = vp_store_user; return true; }
bool ObjectStoreToken::getTokenFlags(CK_ULONG& flags) { flags = IN(flags0); return IN(getflags_ok) != 0; }
bool ObjectStoreToken::setTokenFlags(const CK_ULONG flags) { OUT(flags_set_n)++; OUT(flags_last) = flags; return true; }
bool ObjectStoreToken::resetToken(const ByteString&) { OUT(reset_n)++; if (!IN(reset_ok)) return false; ByteString e; vp_store_user = e; return true; }
static long vp_ost_store[8], vp_newtok_store[8];
ObjectStoreToken* ObjectStore::newToken(const ByteString&) { OUT(newtoken_n)++; return IN(newTokenNull) ? (ObjectStoreToken*)0 : (ObjectStoreToken*)(void*)&vp_newtok_store[0]; }
bool ObjectStore::destroyToken(ObjectStoreToken*) { OUT(destroy_n)++; return true; }
