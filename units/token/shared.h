#ifndef VP_TOKEN_SHARED_H
#define VP_TOKEN_SHARED_H
#include "vp.h"
#define VP_PIN_MAX 4
/* ghost inputs: initial state of the token's SecureDataManager and of the store, the call's arguments */
enum vp_in_idx { I_sdmNull, I_so_in, I_user_in,              /* sdm == NULL; SO / user logged in initially */
                 I_sopin_set, I_sopin_len, I_userpin_set, I_userpin_len,   /* current PINs (set? length) - contents in vp_in_pins */
                 I_which,                                     /* login: 0 SO 1 user; setPIN: 0 SO 1 user 2 initUserPIN */
                 I_arg_len, I_arg2_len,                       /* the PIN argument(s): lengths - contents in vp_in_pins */
                 I_flags0, I_getflags_ok, I_store_ok, I_tokenNull, I_newTokenNull, I_reset_ok, I_labelNull, I_osNull, VP_IN_N };
enum vp_out_idx { O_rv, O_so_after, O_user_after, O_flags_set_n, O_flags_last, O_store_so_n, O_store_user_n, O_store_len, O_store_b0, O_store_b1, O_store_b2, O_store_b3, O_store_b4,
                  O_sdm_so_len, O_sdm_user_len, O_relogin_new_ok, O_relogin_old_ok, O_other_unchanged, O_reset_n, O_newtoken_n, O_destroy_n, O_valid, O_ret_bool, VP_OUT_N };
VP_C_BEGIN
extern CK_ULONG vp_in[VP_IN_N];
extern unsigned char vp_in_pins[4 * VP_PIN_MAX];   /* 0: current SO PIN, 1: current user PIN, 2: argument, 3: second argument */
extern CK_ULONG vp_out[VP_OUT_N];
VP_C_END
#define IN(x) vp_in[(int)I_##x]
#define OUT(x) vp_out[(int)O_##x]
#endif
