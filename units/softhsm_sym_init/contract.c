/* The whole SoftHSM::SymEncryptInit / SymDecryptInit and getSymmetricKey.  C07: the operation starts only if the usage flag
 * is true, the mechanism is permitted for this key and the key TYPE fits the mechanism (DES mechanisms: CKK_DES; DES3:
 * CKK_DES2/CKK_DES3; AES: CKK_AES), and the cipher is set up as the mechanism says (algorithm, mode, padding).  C12: one
 * operation per session; a failed start leaves no operation and gives every crypto object back.  C01/C06: the value of a
 * private key is used only after Token::decrypt.  C17: the parameter block is read within its announced size. */
#include "shared.h"
#include "k_gate.h"
CK_ULONG vp_in[VP_IN_N];
CK_ULONG vp_out[VP_OUT_N];
CK_RV vp_rv;
VP_SOFTHSM_CALLEE_CONTRACTS
#define M SES(MECH)
#define KT (OBJU_HAS(K0, KEY_TYPE) ? OBJU(K0, KEY_TYPE) : CKK_VENDOR_DEFINED)
#define IS_DES (M == CKM_DES_ECB || M == CKM_DES_CBC || M == CKM_DES_CBC_PAD)
#define IS_DES3 (M == CKM_DES3_ECB || M == CKM_DES3_CBC || M == CKM_DES3_CBC_PAD)
#define IS_AES (M == CKM_AES_ECB || M == CKM_AES_CBC || M == CKM_AES_CBC_PAD || M == CKM_AES_CTR || M == CKM_AES_GCM)
#define FITS (IS_DES ? KT == CKK_DES : IS_DES3 ? (KT == CKK_DES2 || KT == CKK_DES3) : IS_AES ? KT == CKK_AES : 0)
/* SymAlgo: AES 1, DES 2, DES3 3; SymMode: CBC 1, CTR 3, ECB 4, GCM 5 */
#define ALGO_OF (IS_AES ? 1 : IS_DES ? 2 : 3)
#define MODE_OF ((M == CKM_DES_ECB || M == CKM_DES3_ECB || M == CKM_AES_ECB) ? 4 : M == CKM_AES_CTR ? 3 : M == CKM_AES_GCM ? 5 : 1)
#define PAD_OF (M == CKM_DES_CBC_PAD || M == CKM_DES3_CBC_PAD || M == CKM_AES_CBC_PAD)
#define IS_CBC (MODE_OF == 1)
#define OUT_ZERO (OUT(getalgo_n) == 0 && OUT(recalgo_n) == 0 && OUT(reckey_n) == 0 && OUT(init_n) == 0 && OUT(set_cipher_n) == 0 && OUT(set_key_n) == 0)
#define KPRIV OBJBV(K0, PRIVATE, 0)      /* getSymmetricKey reads CKA_PRIVATE with default false */
#define DL (TOK(DEC_LEN) > VP_BS_MAX ? VP_BS_MAX : TOK(DEC_LEN))

#define K_SYM_INIT(FLAG, OPCODE, DEC) \
  __CPROVER_requires(VP_FRESH_GHOST && OUT_ZERO && !(TOK(SO) && TOK(USER)) && (!TOK(SO) || SES(RW)) && SES(HOBJ0) != SES(HOBJ1) && SES(OPTYPE) <= 0x10) \
  /* the caller's parameter block is valid memory of the announced size: IV / counter block <= 16 bytes, GCM IV <= 16, AAD <= 8 */ \
  __CPROVER_requires((M == CKM_AES_CTR || M == CKM_AES_GCM || SES(MECH_PARAM_LEN) <= 16) && IN(ivlen) <= 16 && IN(aadlen) <= 8) \
  __CPROVER_ensures((SES(INIT) && SES(VALID) && !SES(MECH_NULL) && !SES(TOKEN_NULL) && SES(OPTYPE) != 0) ==> (RV == CKR_OPERATION_ACTIVE && VP_NO_EFFECT && OUT(getalgo_n) == 0)) \
  __CPROVER_ensures((!SES(INIT) || !SES(VALID) || SES(MECH_NULL) || SES(TOKEN_NULL) || !KEY_OK) ==> (REFUSED_CLEAN && OUT(getalgo_n) == 0)) \
  __CPROVER_ensures((KEY_OK && OBJB(K0, PRIVATE) == 2 && !VP_SES_USER) ==> (REFUSED_CLEAN && OUT(getalgo_n) == 0)) \
  /* C07 */ \
  __CPROVER_ensures((KEY_OK && (OBJB(K0, FLAG) != 2 || !SES(MECH_PERMITTED) || !FITS)) ==> (REFUSED_CLEAN && OUT(getalgo_n) == 0)) \
  __CPROVER_ensures((OUT(init_n) > 0) ==> (OUT(init_n) == 1 && OUT(init_dec) == DEC && FITS && SFX(MECHPERM_N) >= 1 && SFX(MECHPERM_OBJ) == K0 && SFX(MECHPERM_MECH) == M && \
                                          OUT(getalgo_kind) == ALGO_OF && OUT(init_mode) == MODE_OF && OUT(init_pad) == (PAD_OF ? 1 : 0))) \
  /* the parameters reach the cipher as given: CBC IV of the announced length, counter width 1..128, tag a whole number of bytes <= 16 */ \
  __CPROVER_ensures((OUT(init_n) > 0 && IS_CBC) ==> (!SES(MECH_PARAM_NULL) && SES(MECH_PARAM_LEN) != 0 && OUT(init_ivlen) == SES(MECH_PARAM_LEN) && OUT(init_iv0) == vp_in_mparam[0])) \
  __CPROVER_ensures((OUT(init_n) > 0 && M == CKM_AES_CTR) ==> (OUT(init_ctrbits) == IN(ctrbits) && IN(ctrbits) >= 1 && IN(ctrbits) <= 128 && OUT(init_ivlen) == 16)) \
  __CPROVER_ensures((OUT(init_n) > 0 && M == CKM_AES_GCM) ==> (IN(tagbits) <= 128 && IN(tagbits) % 8 == 0 && OUT(init_tagbytes) == IN(tagbits) / 8 && OUT(init_ivlen) == IN(ivlen) && OUT(init_aadlen) == IN(aadlen))) \
  /* the key handed to the cipher: its stored value - decrypted first when the key object is private - with 7 effective bits per byte for DES keys */ \
  __CPROVER_ensures((OUT(init_n) > 0) ==> (OUT(init_keybits) == OUT(init_keylen) * (IS_AES ? 8 : 7))) \
  __CPROVER_ensures((OUT(init_n) > 0 && KPRIV) ==> (CNT(DECRYPT) == 1 && OUT(init_keylen) == DL && (DL == 0 || OUT(init_key0) == vp_in_decbytes[0]))) \
  __CPROVER_ensures((OUT(init_n) > 0 && !KPRIV) ==> CNT(DECRYPT) == 0) \
  /* C12 */ \
  __CPROVER_ensures((RV == CKR_OK) ==> (OUT(init_n) == 1 && IN(init_ok) && SFX(SETOPTYPE_N) == 1 && SFX(SETOPTYPE_LAST) == OPCODE && OUT(set_cipher_n) == 1 && OUT(set_key_n) == 1 && \
                                       OUT(set_multi) && OUT(set_single) && OUT(recalgo_n) == 0 && OUT(reckey_n) == 0)) \
  __CPROVER_ensures((RV != CKR_OK) ==> (SFX(SETOPTYPE_N) == 0 && SFX(SESSION_SET_N) == 0 && (IN(algoNull) || OUT(recalgo_n) == OUT(getalgo_n)) && (OUT(getalgo_n) == 0 || IN(algoNull) || OUT(reckey_n) == 1))) \
  __CPROVER_ensures(CNT(SET) == 0 && CNT(ENCRYPT) == 0 && OUT(getalgo_n) <= 1) \
  __CPROVER_assigns(__CPROVER_object_whole(vp_out), VP_SOFTHSM_FRAME)

CK_RV vp_enc(void) K_SYM_INIT(ENCRYPT, 0x2, 0);
CK_RV vp_dec(void) K_SYM_INIT(DECRYPT, 0x3, 1);
void vp_call_SymEncryptInit(void) { vp_rv = vp_enc(); }
void vp_call_SymDecryptInit(void) { vp_rv = vp_dec(); }
#define COVERS VP_COVER(vp_rv == CKR_OK && M == CKM_AES_GCM && IN(ivlen) == 12); VP_COVER(vp_rv == CKR_OK && M == CKM_DES3_CBC_PAD && KT == CKK_DES2 && KPRIV); VP_COVER(vp_rv == CKR_OK && M == CKM_AES_CTR); \
  VP_COVER(vp_rv == CKR_KEY_TYPE_INCONSISTENT && M == CKM_AES_CBC); VP_COVER(vp_rv == CKR_OPERATION_ACTIVE); VP_COVER(vp_rv == CKR_GENERAL_ERROR && OUT(getalgo_n) == 1); VP_COVER(vp_rv == CKR_MECHANISM_INVALID && OUT(init_n) == 1)
void h_enc(void) { VP_HAVOC_SOFTHSM(); __CPROVER_havoc_object(vp_in); vp_call_SymEncryptInit(); COVERS; }
void h_dec(void) { VP_HAVOC_SOFTHSM(); __CPROVER_havoc_object(vp_in); vp_call_SymDecryptInit(); COVERS; }
