// environment of SymEncryptInit / SymDecryptInit (cbmc: included at the end of the sliced SoftHSM.cpp): crypto factory and
// cipher (ghost answers; what the cipher is initialised with is recorded), session setters (recorded)
#include "CryptoFactory.h"
#include "SymmetricAlgorithm.h"
#include "shared.h"
static long vp_cf_store[8], vp_cipher_store[32];
CryptoFactory* CryptoFactory::i() { return (CryptoFactory*)(void*)&vp_cf_store[0]; }
SymmetricAlgorithm* CryptoFactory::getSymmetricAlgorithm(SymAlgo::Type algorithm)
{
	OUT(getalgo_n)++; OUT(getalgo_kind) = (CK_ULONG)algorithm;
	return IN(algoNull) ? (SymmetricAlgorithm*)0 : (SymmetricAlgorithm*)(void*)&vp_cipher_store[0];
}
void CryptoFactory::recycleSymmetricAlgorithm(SymmetricAlgorithm*) { OUT(recalgo_n)++; }
void SymmetricAlgorithm::recycleKey(SymmetricKey*) { OUT(reckey_n)++; }
static bool rec_init(int dec, const SymmetricKey* key, const SymMode::Type mode, const ByteString& IV, bool padding, size_t counterBits, const ByteString& aad, size_t tagBytes)
{
	OUT(init_n)++; OUT(init_dec) = dec; OUT(init_mode) = (CK_ULONG)mode; OUT(init_pad) = padding; OUT(init_ivlen) = IV.size(); OUT(init_iv0) = IV.size() ? IV.const_byte_str()[0] : 0;
	OUT(init_ctrbits) = counterBits; OUT(init_aadlen) = aad.size(); OUT(init_tagbytes) = tagBytes;
	OUT(init_keybits) = key->getBitLen(); OUT(init_keylen) = key->getKeyBits().size(); OUT(init_key0) = key->getKeyBits().size() ? key->getKeyBits().const_byte_str()[0] : 0;
	return IN(init_ok) != 0;
}
bool SymmetricAlgorithm::encryptInit(const SymmetricKey* key, const SymMode::Type mode, const ByteString& IV, bool padding, size_t counterBits, const ByteString& aad, size_t tagBytes)
{ return rec_init(0, key, mode, IV, padding, counterBits, aad, tagBytes); }
bool SymmetricAlgorithm::decryptInit(const SymmetricKey* key, const SymMode::Type mode, const ByteString& IV, bool padding, size_t counterBits, const ByteString& aad, size_t tagBytes)
{ return rec_init(1, key, mode, IV, padding, counterBits, aad, tagBytes); }
void Session::setSymmetricCryptoOp(SymmetricAlgorithm*) { OUT(set_cipher_n)++; SFX(SESSION_SET_N)++; }
void Session::setSymmetricKey(SymmetricKey*) { OUT(set_key_n)++; SFX(SESSION_SET_N)++; }
void Session::setAllowMultiPartOp(bool v) { OUT(set_multi) = v; SFX(SESSION_SET_N)++; }
void Session::setAllowSinglePartOp(bool v) { OUT(set_single) = v; SFX(SESSION_SET_N)++; }

// the mechanism parameter: for CKM_AES_CTR a CK_AES_CTR_PARAMS, for CKM_AES_GCM a CK_GCM_PARAMS pointing at an IV of <= 16
// and AAD of <= 8 bytes, otherwise the 16 symbolic bytes themselves (an IV); the announced length is symbolic
static CK_RV run(int dec)
{
	VP_MK_HSM();
	CK_MECHANISM mech; unsigned char raw[16]; memcpy(raw, vp_in_mparam, 16);
	CK_AES_CTR_PARAMS ctr; ctr.ulCounterBits = IN(ctrbits); memcpy(ctr.cb, vp_in_mparam, 16);
	unsigned char aadbuf[8]; memcpy(aadbuf, vp_in_mparam, 8);
	CK_GCM_PARAMS gcm; gcm.pIv = &raw[0]; gcm.ulIvLen = IN(ivlen); gcm.ulIvBits = IN(ivlen) * 8; gcm.pAAD = &aadbuf[0]; gcm.ulAADLen = IN(aadlen); gcm.ulTagBits = IN(tagbits);
	mech.mechanism = SES(MECH);
	mech.pParameter = SES(MECH_PARAM_NULL) ? NULL_PTR : SES(MECH) == CKM_AES_CTR ? (CK_VOID_PTR)&ctr : SES(MECH) == CKM_AES_GCM ? (CK_VOID_PTR)&gcm : (CK_VOID_PTR)&raw[0];
	mech.ulParameterLen = SES(MECH_PARAM_LEN);
	CK_MECHANISM_PTR pMech = SES(MECH_NULL) ? (CK_MECHANISM_PTR)0 : &mech;
	return dec ? hsm->SymDecryptInit(SES(HSESSION), pMech, SES(HARG0)) : hsm->SymEncryptInit(SES(HSESSION), pMech, SES(HARG0));
}
extern "C" CK_RV vp_enc(void) { return run(0); }
extern "C" CK_RV vp_dec(void) { return run(1); }
