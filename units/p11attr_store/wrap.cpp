#include "config.h"
#include "P11Attributes.h"
#include "shared.h"
#ifdef VP_NATIVE
class VpAttr : public P11Attribute { public: VpAttr(OSObject* o) : P11Attribute(o) {} virtual bool setDefault() { return true; } };
#define ATTR VpAttr
#else
#define ATTR P11Attribute
#endif
extern "C" CK_RV vp_store(void)
{
	long tok_store[(sizeof(Token) + 7) / 8]; Token* tok = (Token*)(void*)&tok_store[0];
	unsigned char v[8]; for (int i = 0; i < 8; i++) v[i] = vp_in_val[i];
	ATTR a(vp_obj(0));
	a.type = IN(type); a.size = (CK_ULONG)-1; a.checks = 0;
	return a.updateAttr(tok, IN(isPrivate) != 0, (CK_VOID_PTR)&v[0], IN(len), 2);
}
