/* C06: the generic store path of byte-string attributes.  A value of a private object reaches the object store only
 * as the output of Token::encrypt; if encryption fails nothing is stored.  C05: a public value is stored with exactly
 * the caller's length. */
#include "shared.h"
CK_ULONG vp_in[VP_IN_N];
unsigned char vp_in_val[8];
CK_RV vp_rv;
#define RV __CPROVER_return_value
CK_RV vp_store(void)
__CPROVER_requires(IN(len) <= 8 && CNT(SET) == 0 && CNT(LOG) == 0 && CNT(ENCRYPT) == 0 && TOK(ENC_LEN) <= VP_ENC_MAX)
/* private: stored <=> encrypted, and what is stored IS the cipher text */
__CPROVER_ensures((IN(isPrivate) && !TOK(ENC_OK)) ==> (RV != CKR_OK && CNT(SET) == 0))
__CPROVER_ensures((IN(isPrivate) && CNT(SET) > 0) ==> (CNT(SET) == 1 && CNT(ENCRYPT) == 1 && LOGF(0, KIND) == E_SET_BYTES && LOGF(0, TYPE) == IN(type) && LOGF(0, PROV) == 1))
/* public: stored as given */
__CPROVER_ensures((!IN(isPrivate)) ==> (RV == CKR_OK && CNT(SET) == 1 && CNT(ENCRYPT) == 0 && LOGF(0, KIND) == E_SET_BYTES && LOGF(0, TYPE) == IN(type) && LOGF(0, VAL) == IN(len)))
__CPROVER_ensures((RV == CKR_OK) ==> (CNT(SET) == 1))
__CPROVER_assigns(VP_ENV_FRAME);
void vp_call_updateAttr_base(void) { vp_rv = vp_store(); }
void h_store(void) { __CPROVER_havoc_object(vp_in); __CPROVER_havoc_object(vp_in_val); VP_HAVOC_OBJECTS(); vp_call_updateAttr_base();
  VP_COVER(vp_rv == CKR_OK && IN(isPrivate) && IN(len) == 8); VP_COVER(vp_rv == CKR_OK && !IN(isPrivate) && IN(len) == 0); VP_COVER(vp_rv != CKR_OK); }
