#ifndef VP_PST_SHARED_H
#define VP_PST_SHARED_H
#include "osobject.h"
enum vp_in_idx { I_isPrivate, I_len, I_type, VP_IN_N };
enum vp_out_idx { O_unused, VP_OUT_N };
VP_C_BEGIN
extern CK_ULONG vp_in[VP_IN_N];
extern unsigned char vp_in_val[8];
VP_C_END
#define IN(x) vp_in[(int)I_##x]
#endif
