// (cbmc: included at the end of the sliced SessionManager.cpp; native twin: separate translation unit)
#include "config.h"
#include "SessionManager.h"
#include "shared.h"

static Session* built[VP_N];

static void build(SessionManager& sm)
{
	for (CK_ULONG i = 0; i < VP_N; i++)
	{
		built[i] = NULL;
		if (i >= IN(n)) break;
		Session* s = ENT(i, OPEN) ? new Session(vp_slotp(ENT(i, SLOT) ? 1 : 0), ENT(i, RW) != 0, NULL, NULL) : (Session*)0;
		if (s != NULL) s->setHandle(i + 1);
		built[i] = s;
		sm.sessions.push_back(s);
	}
}

static void probe(SessionManager& sm)
{
	CK_ULONG w = IN(w);
	Session* s = sm.getSession(w + 1);
	OUT(size) = sm.sessions.size();
	OUT(w_open) = s != NULL;
	OUT(w_slot) = s != NULL ? (CK_ULONG)vp_slot_idx(s->getSlot()) : 0;
	OUT(w_rw) = s != NULL ? s->isRW() : 0;
	OUT(w_same) = s != NULL && s == built[w];
}

extern "C" void vp_close(void) { SessionManager sm; build(sm); OUT(rv) = sm.closeSession(IN(arg)); probe(sm); }
extern "C" void vp_closeAll(void) { SessionManager sm; build(sm); OUT(rv) = sm.closeAllSessions(IN(nullSlot) ? (Slot*)0 : vp_slotp(IN(arg) & 1)); probe(sm); }
extern "C" void vp_open(void)
{
	SessionManager sm; build(sm);
	CK_SESSION_HANDLE h = 0;
	OUT(rv) = sm.openSession(IN(nullSlot) ? (Slot*)0 : vp_slotp(IN(arg) & 1), IN(flags), NULL, NULL, IN(nullPh) ? (CK_SESSION_HANDLE_PTR)0 : &h);
	OUT(h) = h;
	probe(sm);
}
extern "C" void vp_have(void) { SessionManager sm; build(sm); OUT(have) = sm.haveSession(IN(q)); OUT(haveRO) = sm.haveROSession(IN(q)); probe(sm); }
