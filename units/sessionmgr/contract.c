/* C03 / C11 / C14: SessionManager over an arbitrary table of <= 3 vector slots on two slots (tokens).
 * Oracle: closing the last session of a token logs that token out (and only then, and only that token); a failing
 * call changes nothing; a read-only session cannot be opened while the SO is logged in; sessions of the other token
 * are never touched. */
#include "shared.h"
CK_ULONG vp_in[VP_IN_N];
CK_ULONG vp_in_tab[VP_N * VP_NEF];
CK_ULONG vp_out[VP_OUT_N];
CK_RV vp_rv;

#define N IN(n)
#define W IN(w)
#define OPEN(i) ((i) < N && ENT(i, OPEN))
#define SLOT(i) (ENT(i, SLOT) ? 1 : 0)
#define RWF(i) (ENT(i, RW) != 0)
#define PRE (N <= VP_N && W < VP_N && IN(slotid0) != IN(slotid1))
/* the witness entry is exactly as described */
#define W_SAME (OUT(w_open) == (OPEN(W) ? 1 : 0) && (!OPEN(W) || (OUT(w_slot) == SLOT(W) && OUT(w_rw) == RWF(W) && OUT(w_same))))
#define NO_LOGOUT (OUT(logout0) == 0 && OUT(logout1) == 0)

/* ---- closeSession(h = arg) */
#define H IN(arg)
#define H_VALID (H >= 1 && H <= N && OPEN(H - 1))
#define SIB(i) ((i) != H - 1 && OPEN(i) && SLOT(i) == SLOT(H - 1))
#define SIBLING (SIB(0) || SIB(1) || SIB(2))
void vp_close(void)
__CPROVER_requires(PRE && OUT(logout0) == 0 && OUT(logout1) == 0 && !IN(tokNull))
__CPROVER_ensures((!H_VALID) ==> (OUT(rv) == CKR_SESSION_HANDLE_INVALID && W_SAME && NO_LOGOUT))
__CPROVER_ensures(H_VALID ==> (OUT(rv) == CKR_OK))
/* exactly the closed session goes; every other entry is untouched */
__CPROVER_ensures((H_VALID && W == H - 1) ==> (OUT(w_open) == 0))
__CPROVER_ensures((H_VALID && W != H - 1) ==> W_SAME)
/* the token is logged out iff this was its last session - its own token, once, and never the other token */
__CPROVER_ensures((H_VALID && !SIBLING) ==> ((SLOT(H - 1) ? OUT(logout1) : OUT(logout0)) == 1))
__CPROVER_ensures((H_VALID && SIBLING) ==> NO_LOGOUT)
__CPROVER_ensures(H_VALID ==> ((SLOT(H - 1) ? OUT(logout0) : OUT(logout1)) == 0))
__CPROVER_assigns(__CPROVER_object_whole(vp_out));

/* ---- closeAllSessions(slot index = arg & 1) */
#define S (IN(arg) & 1)
void vp_closeAll(void)
__CPROVER_requires(PRE && OUT(logout0) == 0 && OUT(logout1) == 0)
__CPROVER_ensures((IN(nullSlot) || IN(tokNull)) ==> (OUT(rv) != CKR_OK && W_SAME && NO_LOGOUT))
__CPROVER_ensures((!IN(nullSlot) && !IN(tokNull)) ==> (OUT(rv) == CKR_OK))
__CPROVER_ensures((!IN(nullSlot) && !IN(tokNull) && OPEN(W) && SLOT(W) == S) ==> (OUT(w_open) == 0))
__CPROVER_ensures((!IN(nullSlot) && !IN(tokNull) && !(OPEN(W) && SLOT(W) == S)) ==> W_SAME)
__CPROVER_ensures((!IN(nullSlot) && !IN(tokNull)) ==> ((S ? OUT(logout1) : OUT(logout0)) == 1 && (S ? OUT(logout0) : OUT(logout1)) == 0))
__CPROVER_assigns(__CPROVER_object_whole(vp_out));

/* ---- openSession(slot index = arg & 1, flags) */
#define SERIAL ((IN(flags) & CKF_SERIAL_SESSION) != 0)
#define WANT_RW ((IN(flags) & CKF_RW_SESSION) != 0)
#define SO_IN (S ? IN(so1) : IN(so0))
#define OPEN_FAILS (IN(nullPh) || IN(nullSlot) || !SERIAL || IN(tokNull) || !IN(tokInit) || (!WANT_RW && SO_IN))
void vp_open(void)
__CPROVER_requires(PRE && OUT(logout0) == 0 && OUT(logout1) == 0)
/* a failing call changes nothing */
__CPROVER_ensures(OPEN_FAILS ==> (OUT(rv) != CKR_OK && W_SAME && NO_LOGOUT && OUT(size) == N))
__CPROVER_ensures((!IN(nullPh) && !IN(nullSlot) && !SERIAL) ==> (OUT(rv) == CKR_SESSION_PARALLEL_NOT_SUPPORTED))
/* C03: no read-only session while the SO is logged in */
__CPROVER_ensures((!IN(nullPh) && !IN(nullSlot) && SERIAL && !IN(tokNull) && IN(tokInit) && !WANT_RW && SO_IN) ==> (OUT(rv) == CKR_SESSION_READ_WRITE_SO_EXISTS))
/* success: a handle in 1..size whose entry was free; the new session has the requested slot and mode; everything else untouched */
__CPROVER_ensures((!OPEN_FAILS) ==> (OUT(rv) == CKR_OK && OUT(h) >= 1 && OUT(h) <= OUT(size) && !OPEN(OUT(h) - 1) && NO_LOGOUT))
__CPROVER_ensures((!OPEN_FAILS && W == OUT(h) - 1) ==> (OUT(w_open) == 1 && OUT(w_slot) == S && OUT(w_rw) == WANT_RW))
__CPROVER_ensures((!OPEN_FAILS && W != OUT(h) - 1) ==> W_SAME)
__CPROVER_assigns(__CPROVER_object_whole(vp_out));

/* ---- haveSession / haveROSession(slot id = q) */
#define Q IN(q)
#define SLOTID(i) (SLOT(i) ? IN(slotid1) : IN(slotid0))
#define HAS(i) (OPEN(i) && SLOTID(i) == Q)
#define HASRO(i) (HAS(i) && !RWF(i))
void vp_have(void)
__CPROVER_requires(PRE)
__CPROVER_ensures(OUT(have) == ((HAS(0) || HAS(1) || HAS(2)) ? 1 : 0))
__CPROVER_ensures(OUT(haveRO) == ((HASRO(0) || HASRO(1) || HASRO(2)) ? 1 : 0))
__CPROVER_ensures(W_SAME)
__CPROVER_assigns(__CPROVER_object_whole(vp_out));

void vp_call_closeSession(void) { vp_close(); }
void vp_call_closeAllSessions(void) { vp_closeAll(); }
void vp_call_openSession(void) { vp_open(); }
void vp_call_haveSession(void) { vp_have(); }
#define HAVOC() do { __CPROVER_havoc_object(vp_in); __CPROVER_havoc_object(vp_in_tab); } while (0)
void h_close(void) { HAVOC(); vp_call_closeSession(); VP_COVER(OUT(rv) == CKR_OK && OUT(logout1) == 1 && N == 3); VP_COVER(OUT(rv) == CKR_OK && NO_LOGOUT); VP_COVER(OUT(rv) != CKR_OK && N == 3); VP_COVER(OUT(rv) == CKR_OK && OUT(w_open) && W != H - 1); }
void h_closeAll(void) { HAVOC(); vp_call_closeAllSessions(); VP_COVER(OUT(rv) == CKR_OK && OPEN(W) && OUT(w_open) == 0); VP_COVER(OUT(rv) == CKR_OK && OUT(w_open) == 1); VP_COVER(OUT(rv) != CKR_OK); }
void h_open(void) { HAVOC(); vp_call_openSession(); VP_COVER(OUT(rv) == CKR_OK && OUT(h) == 2 && N == 3); VP_COVER(OUT(rv) == CKR_OK && OUT(h) == 3 && N == 2); VP_COVER(OUT(rv) == CKR_SESSION_READ_WRITE_SO_EXISTS); VP_COVER(OUT(rv) == CKR_OK && !WANT_RW); }
void h_have(void) { HAVOC(); vp_call_haveSession(); VP_COVER(OUT(have) && !OUT(haveRO)); VP_COVER(OUT(haveRO)); VP_COVER(!OUT(have) && N == 3 && OPEN(0)); }
