// environment of SessionManager (same translation unit, see unit.json): two slots, their tokens, no-op ~Session
#include "config.h"
#include "Session.h"
#include "Slot.h"
#include "Token.h"
#include "shared.h"
static long vp_slots[2][(sizeof(Slot) + 7) / 8 + 1];
static long vp_toks[2][(sizeof(Token) + 7) / 8 + 1];
static Slot* vp_slotp(int k) { return (Slot*)(void*)&vp_slots[k][0]; }
static Token* vp_tokp(int k) { return (Token*)(void*)&vp_toks[k][0]; }
static int vp_slot_idx(Slot* s) { return s == vp_slotp(1) ? 1 : 0; }
static int vp_tok_idx(Token* t) { return t == vp_tokp(1) ? 1 : 0; }
CK_SLOT_ID Slot::getSlotID() { return vp_slot_idx(this) ? IN(slotid1) : IN(slotid0); }
Token* Slot::getToken() { return IN(tokNull) ? (Token*)0 : vp_tokp(vp_slot_idx(this)); }
bool Token::isInitialized() { return IN(tokInit) != 0; }
bool Token::isSOLoggedIn() { return (vp_tok_idx(this) ? IN(so1) : IN(so0)) != 0; }
void Token::logout() { if (vp_tok_idx(this)) OUT(logout1)++; else OUT(logout0)++; }
Session::~Session() {}
