#ifndef VP_SM_SHARED_H
#define VP_SM_SHARED_H
#include "vp.h"
#define VP_N 3
/* table entry i (session handle i+1): open?; slot index 0/1; read-write? */
enum vp_ef { EF_OPEN, EF_SLOT, EF_RW, VP_NEF };
enum vp_in_idx { I_n, I_arg, I_w, I_slotid0, I_slotid1, I_so0, I_so1, I_tokNull, I_tokInit, I_flags, I_nullPh, I_nullSlot, I_q, VP_IN_N };
enum vp_out_idx { O_rv, O_w_open, O_w_slot, O_w_rw, O_w_same, O_logout0, O_logout1, O_h, O_size, O_have, O_haveRO, VP_OUT_N };
VP_C_BEGIN
extern CK_ULONG vp_in[VP_IN_N];
extern CK_ULONG vp_in_tab[VP_N * VP_NEF];
extern CK_ULONG vp_out[VP_OUT_N];
VP_C_END
#define IN(x) vp_in[(int)I_##x]
#define OUT(x) vp_out[(int)O_##x]
#define ENT(i, f) vp_in_tab[(i) * (int)VP_NEF + (int)EF_##f]
#endif
