#ifndef VP_FIND_SHARED_H
#define VP_FIND_SHARED_H
#include "softhsm_env.h"
/* population: object k is delivered by the store iff IN(present_k); objects 0,1 by the token, object 2 by the session object store -
 * for the session's slot unless IN(obj2_foreign): then it is a session object of ANOTHER slot, which only the all-slots overload of getObjects lists */
enum vp_in_idx { I_present0, I_present1, I_present2, I_w, I_createNull, I_addFails, I_storeSlotSeen, I_obj2_foreign, VP_IN_N };
enum vp_out_idx { O_found0, O_found1, O_found2, O_add_n0, O_add_n1, O_add_n2, O_add_priv, O_add_token, O_add_slot, O_add_hsess,
                  O_sos_slot, O_setHandles_n, O_setFindOp_n, O_tokGet_n, O_sosGet_n, VP_OUT_N };
VP_C_BEGIN
extern CK_ULONG vp_in[VP_IN_N];
extern unsigned char vp_in_tbytes[VP_TMPL_MAX * 8];   /* template values (8 bytes each) */
extern CK_ULONG vp_out[VP_OUT_N];
VP_C_END
#define IN(x) vp_in[(int)I_##x]
#define OUT(x) vp_out[(int)O_##x]
#endif
