// environment of C_FindObjectsInit: the candidate population, the find operation object, handle registration
#include "config.h"
#include "SoftHSM.h"
#include "FindOperation.h"
#include "SessionObjectStore.h"
#include "HandleManager.h"
#include "shared.h"

void Token::getObjects(std::set<OSObject*>& objects)
{
	OUT(tokGet_n)++;
	if (IN(present0)) objects.insert(vp_obj(0));
	if (IN(present1)) objects.insert(vp_obj(1));
}

void SessionObjectStore::getObjects(CK_SLOT_ID slotID, std::set<OSObject*>& inObjects)
{
	OUT(sosGet_n)++;
	OUT(sos_slot) = slotID;
	if (IN(present2) && !IN(obj2_foreign)) inObjects.insert(vp_obj(2));
}
// the all-slots overload (C_FindObjectsInit must not use it: C14/C19 cross-token separation)
void SessionObjectStore::getObjects(std::set<OSObject*>& objects)
{
	OUT(sosGet_n)++;
	OUT(sos_slot) = (CK_ULONG)-1;
	if (IN(present2)) objects.insert(vp_obj(2));
}

// (heap object: the function under contract deletes it on its error paths)
typedef FindOperation vp_findop_t;   // (inside a member function the class name resolves to the constructor for cbmc)
static vp_findop_t* vp_new_findop() { return (vp_findop_t*)malloc(sizeof(vp_findop_t)); }
FindOperation* FindOperation::create() { if (IN(createNull)) return 0; return vp_new_findop(); }

// the handle of environment object k is 100 + k
void FindOperation::setHandles(const std::set<CK_OBJECT_HANDLE>& handles)
{
	OUT(setHandles_n)++;
	OUT(found0) = handles.find(100) != handles.end();
	OUT(found1) = handles.find(101) != handles.end();
	OUT(found2) = handles.find(102) != handles.end();
}

void Session::setFindOp(FindOperation*) { OUT(setFindOp_n)++; }

static CK_OBJECT_HANDLE reg(CK_SLOT_ID slotID, CK_SESSION_HANDLE hSession, bool isPrivate, bool isToken, CK_VOID_PTR object)
{
	int k = vp_obj_index((OSObject*)object);
	if (k == 0) OUT(add_n0)++; else if (k == 1) OUT(add_n1)++; else OUT(add_n2)++;
	if (k == (int)IN(w)) { OUT(add_priv) = isPrivate; OUT(add_token) = isToken; OUT(add_slot) = slotID; OUT(add_hsess) = hSession; }
	if (IN(addFails)) return CK_INVALID_HANDLE;
	return 100 + k;
}
CK_OBJECT_HANDLE HandleManager::addTokenObject(CK_SLOT_ID slotID, bool isPrivate, CK_VOID_PTR object) { return reg(slotID, 0, isPrivate, true, object); }
CK_OBJECT_HANDLE HandleManager::addSessionObject(CK_SLOT_ID slotID, CK_SESSION_HANDLE hSession, bool isPrivate, CK_VOID_PTR object) { return reg(slotID, hSession, isPrivate, false, object); }

static long vp_sos_store[4];
// One entry per template shape: the attribute TYPES are compile-time constants (so that cbmc resolves the
// environment's attribute lookup instead of executing every attribute kind symbolically); lengths and values stay symbolic.
static CK_RV find_with(CK_ULONG count, CK_ATTRIBUTE_TYPE t0, CK_ATTRIBUTE_TYPE t1)
{
	VP_MK_HSM();
	hsm->sessionObjectStore = (SessionObjectStore*)(void*)&vp_sos_store[0];
	CK_ATTRIBUTE tmpl[VP_TMPL_MAX]; unsigned char tvals[VP_TMPL_MAX][8];
	for (int ti = 0; ti < VP_TMPL_MAX; ti++)
	{
		for (int b = 0; b < 8; b++) tvals[ti][b] = vp_in_tbytes[ti * 8 + b];
		tmpl[ti].ulValueLen = TMPL(ti, LEN); tmpl[ti].pValue = (CK_VOID_PTR)&tvals[ti][0];
	}
	tmpl[0].type = t0; tmpl[1].type = t1;
	return hsm->C_FindObjectsInit(SES(HSESSION), &tmpl[0], count);
}
extern "C" CK_RV vp_find_empty(void) { return find_with(0, 0, 0); }
extern "C" CK_RV vp_find_ulong(void) { return find_with(1, CKA_CLASS, 0); }
extern "C" CK_RV vp_find_bool(void) { return find_with(1, CKA_TOKEN, 0); }
extern "C" CK_RV vp_find_bytes(void) { return find_with(1, CKA_LABEL, 0); }
extern "C" CK_RV vp_find_two(void) { return find_with(2, CKA_LABEL, CKA_CLASS); }
