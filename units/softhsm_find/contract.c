/* C19 (search sound and complete), C01 (no private object reaches a public or SO session), C12 (a failed find is
 * gone), C14 (only this slot's session objects): SoftHSM::C_FindObjectsInit over a symbolic population of <= 3
 * objects and a symbolic template of <= 2 entries.  The specification of "matches" is the pure function below. */
#include "shared.h"
#include <string.h>
#ifndef VP_FIND_TMAX
#define VP_FIND_TMAX 2
#define VP_FIND_NOBJ 3
#endif

CK_ULONG vp_in[VP_IN_N];
unsigned char vp_in_tbytes[VP_TMPL_MAX * 8];
CK_ULONG vp_out[VP_OUT_N];
CK_RV vp_rv;
VP_SOFTHSM_CALLEE_CONTRACTS

static CK_ULONG tval_ulong(int j) { CK_ULONG v; memcpy(&v, &vp_in_tbytes[j * 8], 8); return v; }
static int priv_of(int o) { return vp_in_objb[o * (int)VP_NB + (int)B_PRIVATE] % 3 != 1; }   /* absent counts as private */

/* does template entry j match object o?  (typed comparison, PKCS#11 C_FindObjectsInit) */
static int spec_entry(int o, int j)
{
  CK_ATTRIBUTE_TYPE t = TMPL(j, TYPE);
  CK_ULONG len = TMPL(j, LEN);
  int b = vp_bidx(t), u = vp_uidx(t);
  if (b >= 0)
  {
    CK_ULONG cell = vp_in_objb[o * (int)VP_NB + b] % 3;
    return cell != 0 && len == 1 && ((cell == 2) == (vp_in_tbytes[j * 8] == CK_TRUE));
  }
  if (u >= 0)
    return vp_in_obju[(o * (int)VP_NU + u) * 2] != 0 && len == 8 && vp_in_obju[(o * (int)VP_NU + u) * 2 + 1] == tval_ulong(j);
  if (t == CKA_ALLOWED_MECHANISMS) return 0;
  if (!(OBJX(o, OTHER_EXISTS) && OBJX(o, OTHER_TYPE) == t)) return 0;
  if (OBJX(o, OTHER_KIND) == 1) return len == 1 && ((OBJX(o, OTHER_ULONG) != 0) == (vp_in_tbytes[j * 8] == CK_TRUE));
  if (OBJX(o, OTHER_KIND) == 2) return len == 8 && OBJX(o, OTHER_ULONG) == tval_ulong(j);
  if (OBJX(o, OTHER_KIND) != 4)      /* every other kind value denotes a byte string in the environment */
  {
    CK_ULONG slen = OBJX(o, OTHER_LEN) > VP_BS_MAX ? VP_BS_MAX : OBJX(o, OTHER_LEN);
    const unsigned char* val = &vp_in_bytes[o * VP_BS_MAX];
    if (priv_of(o) && slen != 0)          /* private objects store the value encrypted: what is compared is the decryption */
    {
      slen = TOK(DEC_LEN) > VP_BS_MAX ? VP_BS_MAX : TOK(DEC_LEN);
      val = vp_in_decbytes;
    }
    if (slen != len) return 0;
    for (CK_ULONG i = 0; i < VP_BS_MAX; i++) if (i < len && val[i] != vp_in_tbytes[j * 8 + i]) return 0;
    return 1;
  }
  return 0;
}
static int present(int o) { return o == 0 ? IN(present0) != 0 : o == 1 ? IN(present1) != 0 : (IN(present2) != 0 && !IN(obj2_foreign)); }
static int spec_found(int o)
{
  if (!present(o) || !OBJX(o, VALID)) return 0;
  if (!VP_SES_USER && priv_of(o)) return 0;
  for (int j = 0; j < VP_TMPL_MAX; j++) if ((CK_ULONG)j < SES(TCOUNT) && !spec_entry(o, j)) return 0;
  return 1;
}
static int found(int o) { return o == 0 ? OUT(found0) != 0 : o == 1 ? OUT(found1) != 0 : OUT(found2) != 0; }
static CK_ULONG add_n(int o) { return o == 0 ? OUT(add_n0) : o == 1 ? OUT(add_n1) : OUT(add_n2); }

#define RV __CPROVER_return_value
#define WO ((int)IN(w))
#define GOOD_CALL (SES(INIT) && SES(VALID) && !SES(TOKEN_NULL) && SES(OPTYPE) == 0 && !IN(createNull))
#define OP_LEFT_NONE (SFX(SETOPTYPE_N) == 0 || SFX(SETOPTYPE_LAST) == 0)

#define K_FIND(COUNT, T0, T1) \
  __CPROVER_requires(SES(TCOUNT) == (COUNT) && ((COUNT) < 1 || TMPL(0, TYPE) == (T0)) && ((COUNT) < 2 || TMPL(1, TYPE) == (T1))) \
  __CPROVER_requires(VP_FRESH_GHOST && !(TOK(SO) && TOK(USER)) && (!TOK(SO) || SES(RW)) && SES(OPTYPE) <= 0x10 && IN(w) <= 2) \
/* tier bounds */ \
  __CPROVER_requires(SES(TCOUNT) <= VP_FIND_TMAX && (VP_FIND_NOBJ >= 3 || !IN(present1)) && (VP_FIND_NOBJ >= 2 || !IN(present0) || !IN(present2))) \
  __CPROVER_requires(SES(TCOUNT) <= VP_TMPL_MAX && TMPL(0, LEN) <= 8 && TMPL(1, LEN) <= 8 && (!SES(NULL_OUT) || SES(TCOUNT) == 0)) \
/* C12: one operation at a time a failed find leaves no active operation */ \
  __CPROVER_ensures((SES(INIT) && SES(VALID) && !SES(TOKEN_NULL) && SES(OPTYPE) != 0) ==> (RV == CKR_OPERATION_ACTIVE && VP_NO_EFFECT && OUT(setHandles_n) == 0)) \
  __CPROVER_ensures((RV != CKR_OK) ==> (OP_LEFT_NONE && OUT(setFindOp_n) == 0)) \
  __CPROVER_ensures((RV == CKR_OK) ==> (SFX(SETOPTYPE_N) >= 1 && SFX(SETOPTYPE_LAST) == 1 && OUT(setFindOp_n) == 1 && OUT(setHandles_n) == 1)) \
/* C19: sound and complete for the witness object (any of the three) */ \
  __CPROVER_ensures((RV == CKR_OK) ==> (found(WO) == spec_found(WO))) \
/* success is guaranteed when nothing in the environment fails */ \
  __CPROVER_ensures((GOOD_CALL && TOK(DEC_OK) && !IN(addFails)) ==> (RV == CKR_OK)) \
/* C01: a private object yields neither a handle nor a value in a public / SO session - even when the call fails later */ \
  __CPROVER_ensures((!VP_SES_USER && priv_of(WO)) ==> (add_n(WO) == 0 && !found(WO))) \
  __CPROVER_ensures((!VP_SES_USER && priv_of(0) && priv_of(1) && priv_of(2)) ==> (CNT(VALUE_READS) == 0 && CNT(DECRYPT) == 0)) \
/* handles are registered only for matching objects, once, with the object's own flags, this session and this slot */ \
  __CPROVER_ensures((add_n(WO) > 0) ==> (add_n(WO) == 1 && spec_found(WO) && OUT(add_priv) == (CK_ULONG)priv_of(WO) && \
                  OUT(add_token) == (OBJB(WO, TOKEN) == 2) && OUT(add_slot) == SES(SLOTID) && (OUT(add_token) || OUT(add_hsess) == SES(HSESSION)))) \
/* C14/C19: session objects are taken from this session's slot only */ \
  __CPROVER_ensures((OUT(sosGet_n) > 0) ==> (OUT(sos_slot) == SES(SLOTID))) \
/* a search modifies no object */ \
  __CPROVER_ensures(CNT(SET) == 0 && CNT(DELETE) == 0 && CNT(DESTROY) == 0) \
  __CPROVER_assigns(__CPROVER_object_whole(vp_out), VP_SOFTHSM_FRAME)

CK_RV vp_find_empty(void) K_FIND(0, 0, 0);
CK_RV vp_find_ulong(void) K_FIND(1, CKA_CLASS, 0);
CK_RV vp_find_bool(void) K_FIND(1, CKA_TOKEN, 0);
CK_RV vp_find_bytes(void) K_FIND(1, CKA_LABEL, 0);
CK_RV vp_find_two(void) K_FIND(2, CKA_LABEL, CKA_CLASS);


#define HAV() do { VP_HAVOC_SOFTHSM(); __CPROVER_havoc_object(vp_in); __CPROVER_havoc_object(vp_in_tbytes); } while (0)
void vp_call_find_empty(void) { vp_rv = vp_find_empty(); }
void vp_call_find_ulong(void) { vp_rv = vp_find_ulong(); }
void vp_call_find_bool(void) { vp_rv = vp_find_bool(); }
void vp_call_find_bytes(void) { vp_rv = vp_find_bytes(); }
void vp_call_find_two(void) { vp_rv = vp_find_two(); }
void h_find_empty(void) { HAV(); vp_call_find_empty(); VP_COVER(vp_rv == CKR_OK && OUT(found0) && OUT(found2)); VP_COVER(vp_rv == CKR_OK && !VP_SES_USER && IN(present0) && priv_of(0) && !OUT(found0)); VP_COVER(vp_rv == CKR_OPERATION_ACTIVE); VP_COVER(vp_rv == CKR_OK && IN(present2) && IN(obj2_foreign) && OBJX(2, VALID) && !OUT(found2) && OUT(found0)); }
void h_find_ulong(void) { HAV(); vp_call_find_ulong(); VP_COVER(vp_rv == CKR_OK && OUT(found0) && !OUT(found2) && IN(present2) && OBJX(2, VALID)); VP_COVER(vp_rv == CKR_OK && OUT(found2)); }
void h_find_bool(void) { HAV(); vp_call_find_bool(); VP_COVER(vp_rv == CKR_OK && OUT(found0) && !OUT(found2) && IN(present2) && OBJX(2, VALID)); VP_COVER(vp_rv == CKR_OK && OUT(found2)); }
void h_find_bytes(void) { HAV(); vp_call_find_bytes(); VP_COVER(vp_rv == CKR_OK && OUT(found0) && priv_of(0) && TMPL(0, LEN) == 5); VP_COVER(vp_rv == CKR_OK && OUT(found2) && !priv_of(2) && TMPL(0, LEN) == 8); VP_COVER(vp_rv == CKR_GENERAL_ERROR); VP_COVER(vp_rv == CKR_OK && OUT(found0) && TMPL(0, LEN) == 0); }
void h_find_two(void) { HAV(); vp_call_find_two(); VP_COVER(vp_rv == CKR_OK && OUT(found0) && OUT(found2)); VP_COVER(vp_rv == CKR_OK && IN(present0) && OBJX(0, VALID) && !OUT(found0) && OUT(found2)); }
