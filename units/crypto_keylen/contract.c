/* C12 ("reports ... the fixed ... signature or modulus size"): the length every RSA size query and buffer check in
 * SoftHSM.cpp is based on - RSAPublicKey/RSAPrivateKey::getOutputLength - is the size of the modulus as a NUMBER: the
 * bytes from its first non-zero byte on, however many zero bytes the stored CKA_MODULUS carries in front (a DER / Java
 * style encoding has one).  ByteString::bits is the position of the highest set bit. */
#include "shared.h"
CK_ULONG vp_in[VP_IN_N];
unsigned char vp_in_buf[VP_KL];
CK_ULONG vp_out[VP_OUT_N];

/* number of leading zero bytes */
static CK_ULONG lead0(void) { CK_ULONG k = 0; for (CK_ULONG i = 0; i < VP_KL; i++) { if (i < IN(len) && k == i && vp_in_buf[i] == 0) k = i + 1; } return k; }
/* bit length of the first non-zero byte */
static CK_ULONG topbits(void)
{
  CK_ULONG k = lead0(); if (k >= IN(len)) return 0;
  unsigned char b = vp_in_buf[k];
  return b >= 0x80 ? 8 : b >= 0x40 ? 7 : b >= 0x20 ? 6 : b >= 0x10 ? 5 : b >= 0x08 ? 4 : b >= 0x04 ? 3 : b >= 0x02 ? 2 : 1;
}
#define SPEC_BITS (lead0() >= IN(len) ? 0 : (IN(len) - lead0() - 1) * 8 + topbits())
#define SPEC_BYTES (IN(len) - lead0())

void vp_keylen(void)
__CPROVER_requires(IN(len) <= VP_KL)
__CPROVER_ensures(OUT(bits_bs) == SPEC_BITS)
__CPROVER_ensures(OUT(bits_pub) == SPEC_BITS && OUT(bits_priv) == SPEC_BITS)
/* the output length is the modulus size in bytes, leading zero bytes of the stored value not counted */
__CPROVER_ensures(OUT(out_pub) == SPEC_BYTES && OUT(out_priv) == SPEC_BYTES)
__CPROVER_assigns(__CPROVER_object_whole(vp_out));
void vp_call_keylen(void) { vp_keylen(); }
void h_keylen(void)
{
  __CPROVER_havoc_object(vp_in); __CPROVER_havoc_object(vp_in_buf); vp_call_keylen();
  VP_COVER(OUT(out_pub) == 15 && IN(len) == 16); VP_COVER(OUT(out_pub) == 16 && OUT(bits_pub) == 121); VP_COVER(IN(len) == 0); VP_COVER(OUT(out_priv) == 0 && IN(len) == 3);
}
