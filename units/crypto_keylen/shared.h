#ifndef VP_KEYLEN_SHARED_H
#define VP_KEYLEN_SHARED_H
#include "vp.h"
#define VP_KL 16     /* modulus bytes */
enum vp_in_idx { I_len, VP_IN_N };
enum vp_out_idx { O_bits_pub, O_bits_priv, O_out_pub, O_out_priv, O_bits_bs, VP_OUT_N };
VP_C_BEGIN
extern CK_ULONG vp_in[VP_IN_N];
extern unsigned char vp_in_buf[VP_KL];
extern CK_ULONG vp_out[VP_OUT_N];
VP_C_END
#define IN(x) vp_in[(int)I_##x]
#define OUT(x) vp_out[(int)O_##x]
#endif
