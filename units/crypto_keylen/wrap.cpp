#include "config.h"
#include "RSAPublicKey.h"
#include "RSAPrivateKey.h"
#include "shared.h"
// the keys are raw storage (never constructed: their constructors belong to the OpenSSL subclasses); only the modulus is set,
// through the real setN
extern "C" void vp_keylen(void)
{
	ByteString n(vp_in_buf, IN(len));
	OUT(bits_bs) = n.bits();
	long pub_store[(sizeof(RSAPublicKey) + 7) / 8 + 1]; RSAPublicKey* pub = (RSAPublicKey*)(void*)&pub_store[0];
	long prv_store[(sizeof(RSAPrivateKey) + 7) / 8 + 1]; RSAPrivateKey* prv = (RSAPrivateKey*)(void*)&prv_store[0];
	VP_INIT_CONTAINER(pub->n.byteString); VP_INIT_CONTAINER(prv->n.byteString);
	pub->setN(n); prv->setN(n);
	OUT(bits_pub) = pub->getBitLength(); OUT(out_pub) = pub->getOutputLength();
	OUT(bits_priv) = prv->getBitLength(); OUT(out_priv) = prv->getOutputLength();
}
