/* C07 (a mechanism the configuration removed is refused by EVERY entry point that takes a mechanism - digesting and
 * key generation included), C01 (no private object is generated outside a user session, no token object through a
 * read-only session), C12 (C_DigestInit: one operation per session; a failed start leaves none):
 * the whole SoftHSM::C_DigestInit, C_GenerateKey and C_GenerateKeyPair.  The generate* members are recorded effects. */
#include "shared.h"

CK_ULONG vp_in[VP_IN_N];
CK_ULONG vp_in_ta[VP_TA * 3];
CK_ULONG vp_in_tb[VP_TA * 3];
CK_ULONG vp_out[VP_OUT_N];
CK_RV vp_rv;
VP_SOFTHSM_CALLEE_CONTRACTS

#define RV __CPROVER_return_value
#define M SES(MECH)
/* what a template says: the last well-sized entry of a type wins, the default otherwise */
static CK_ULONG t_val(const CK_ULONG *T, CK_ULONG n, CK_ATTRIBUTE_TYPE t, CK_ULONG len, CK_ULONG dflt)
{
  CK_ULONG v = dflt;
  for (CK_ULONG i = 0; i < VP_TA; i++) if (i < n && T[i * 3] == t && T[i * 3 + 1] == len) v = T[i * 3 + 2];
  return v;
}
#define NA (IN(tNullA) ? 0 : IN(countA))
#define NB (IN(tNullB) ? 0 : IN(countB))
static int a_token(void) { return (t_val(vp_in_ta, NA, CKA_TOKEN, 1, 0) & 0xff) != 0; }
static int a_private(CK_ULONG dflt) { return (t_val(vp_in_ta, NA, CKA_PRIVATE, 1, dflt) & 0xff) != 0; }
static int b_token(void) { return (t_val(vp_in_tb, NB, CKA_TOKEN, 1, 0) & 0xff) != 0; }
static int b_private(void) { return (t_val(vp_in_tb, NB, CKA_PRIVATE, 1, 1) & 0xff) != 0; }
/* the generator a mechanism selects */
static CK_ULONG gen_of(CK_ULONG m)
{
  return m == CKM_DSA_PARAMETER_GEN ? G_DSAPARAM : m == CKM_DH_PKCS_PARAMETER_GEN ? G_DHPARAM : m == CKM_DES_KEY_GEN ? G_DES : m == CKM_DES2_KEY_GEN ? G_DES2 :
         m == CKM_DES3_KEY_GEN ? G_DES3 : m == CKM_AES_KEY_GEN ? G_AES : m == CKM_GENERIC_SECRET_KEY_GEN ? G_GENERIC :
         m == CKM_RSA_PKCS_KEY_PAIR_GEN ? G_RSA : m == CKM_DSA_KEY_PAIR_GEN ? G_DSA : m == CKM_DH_PKCS_KEY_PAIR_GEN ? G_DH : m == CKM_EC_KEY_PAIR_GEN ? G_EC :
         m == CKM_EC_EDWARDS_KEY_PAIR_GEN ? G_ED : G_NONE;
}
static CK_ULONG keytype_of(CK_ULONG m)
{
  return m == CKM_DSA_PARAMETER_GEN ? CKK_DSA : m == CKM_DH_PKCS_PARAMETER_GEN ? CKK_DH : m == CKM_DES_KEY_GEN ? CKK_DES : m == CKM_DES2_KEY_GEN ? CKK_DES2 :
         m == CKM_DES3_KEY_GEN ? CKK_DES3 : m == CKM_AES_KEY_GEN ? CKK_AES : m == CKM_GENERIC_SECRET_KEY_GEN ? CKK_GENERIC_SECRET :
         m == CKM_RSA_PKCS_KEY_PAIR_GEN ? CKK_RSA : m == CKM_DSA_KEY_PAIR_GEN ? CKK_DSA : m == CKM_DH_PKCS_KEY_PAIR_GEN ? CKK_DH : m == CKM_EC_KEY_PAIR_GEN ? CKK_EC :
         m == CKM_EC_EDWARDS_KEY_PAIR_GEN ? CKK_EC_EDWARDS : (CK_ULONG)-1;
}
static CK_ULONG class_of(CK_ULONG m) { return (m == CKM_DSA_PARAMETER_GEN || m == CKM_DH_PKCS_PARAMETER_GEN) ? CKO_DOMAIN_PARAMETERS : CKO_SECRET_KEY; }
/* the digest a mechanism selects (HashAlgo::Type: Unknown 0, MD5 1, SHA1 2, SHA224 3, SHA256 4, SHA384 5, SHA512 6) */
static CK_ULONG hash_of(CK_ULONG m)
{
  return m == CKM_MD5 ? 1 : m == CKM_SHA_1 ? 2 : m == CKM_SHA224 ? 3 : m == CKM_SHA256 ? 4 : m == CKM_SHA384 ? 5 : m == CKM_SHA512 ? 6 : 0;
}
#define OUT_ZERO (OUT(gethash_n) == 0 && OUT(hashinit_n) == 0 && OUT(recycle_n) == 0 && OUT(setdigest_n) == 0 && OUT(sethash_n) == 0 && OUT(gen_n) == 0)
#define PRE (VP_FRESH_GHOST && OUT_ZERO && !(TOK(SO) && TOK(USER)) && (!TOK(SO) || SES(RW)) && SES(OPTYPE) <= 0x10 && IN(countA) <= VP_TA && IN(countB) <= VP_TA && IN(other_mech) != M)
#define REFUSED (RV != CKR_OK && VP_NO_EFFECT && OUT(gen_n) == 0 && OUT(hashinit_n) == 0 && OUT(setdigest_n) == 0 && OUT(sethash_n) == 0)

/* ---------------------------------------------------------------------------------------------- C_DigestInit */
CK_RV vp_DigestInit(void)
__CPROVER_requires(PRE)
__CPROVER_ensures(!SES(INIT) ==> (RV == CKR_CRYPTOKI_NOT_INITIALIZED && REFUSED))
__CPROVER_ensures((!SES(VALID) || SES(MECH_NULL)) ==> REFUSED)
/* C12: a second operation cannot be started; the active one is left alone */
__CPROVER_ensures((SES(INIT) && SES(VALID) && !SES(MECH_NULL) && SES(OPTYPE) != 0) ==> (RV == CKR_OPERATION_ACTIVE && REFUSED && OUT(gethash_n) == 0))
/* C07: a mechanism the configuration removed is refused, nothing is started */
__CPROVER_ensures(!SES(MECH_PERMITTED) ==> REFUSED)
/* success: exactly the digest the mechanism names is started and recorded in the session as a digest operation */
__CPROVER_ensures((RV == CKR_OK) ==> (hash_of(M) != 0 && OUT(gethash_n) == 1 && OUT(gethash_kind) == hash_of(M) && OUT(hashinit_n) == 1 && OUT(recycle_n) == 0 &&
                                     SFX(SETOPTYPE_N) == 1 && SFX(SETOPTYPE_LAST) == 0x4 && OUT(setdigest_n) == 1 && OUT(sethash_n) == 1 && OUT(sethash_kind) == hash_of(M)))
/* C12: a failed start leaves no operation and gives the hash instance back */
__CPROVER_ensures((RV != CKR_OK) ==> (SFX(SETOPTYPE_N) == 0 && OUT(setdigest_n) == 0 && OUT(sethash_n) == 0 && (IN(hashNull) || OUT(recycle_n) == OUT(gethash_n))))
__CPROVER_ensures(OUT(gen_n) == 0 && CNT(SET) == 0 && CNT(VALUE_READS) == 0)
__CPROVER_assigns(__CPROVER_object_whole(vp_out), VP_SOFTHSM_FRAME);
void vp_call_C_DigestInit(void) { vp_rv = vp_DigestInit(); }
void h_DigestInit(void)
{
  VP_HAVOC_SOFTHSM(); __CPROVER_havoc_object(vp_in); vp_call_C_DigestInit();
  VP_COVER(vp_rv == CKR_OK && M == CKM_SHA256); VP_COVER(vp_rv == CKR_OPERATION_ACTIVE); VP_COVER(vp_rv == CKR_MECHANISM_INVALID && !SES(MECH_PERMITTED) && M == CKM_SHA_1);
  VP_COVER(vp_rv == CKR_GENERAL_ERROR && OUT(recycle_n) == 1);
}

/* ---------------------------------------------------------------------------------------------- C_GenerateKey */
#define GK_ARGS_OK (SES(INIT) && SES(VALID) && !SES(MECH_NULL) && !IN(phNullA) && !(IN(tNullA) && IN(countA) != 0))
CK_RV vp_GenerateKey(void)
__CPROVER_requires(PRE)
__CPROVER_ensures(!SES(INIT) ==> (RV == CKR_CRYPTOKI_NOT_INITIALIZED && REFUSED))
__CPROVER_ensures(!GK_ARGS_OK ==> REFUSED)
/* C07: a mechanism the configuration removed is refused, nothing is generated */
__CPROVER_ensures(!SES(MECH_PERMITTED) ==> REFUSED)
/* C01: no private key outside a user session, no token key through a read-only session (template flags, PKCS#11 defaults) */
__CPROVER_ensures((GK_ARGS_OK && a_private(1) && !VP_SES_USER) ==> REFUSED)
__CPROVER_ensures((GK_ARGS_OK && a_token() && !SES(RW)) ==> REFUSED)
/* what is generated is what the mechanism names, in this session, from this template, with the template's own flags */
__CPROVER_ensures(OUT(gen_n) <= 1 && (OUT(gen_n) == 0 ==> REFUSED))
__CPROVER_ensures((OUT(gen_n) == 1) ==> (RV == IN(gen_rv) && OUT(gen_kind) == gen_of(M) && gen_of(M) >= G_DSAPARAM && gen_of(M) <= G_GENERIC && OUT(gen_hsess) == SES(HSESSION) &&
                                        OUT(gen_cntA) == IN(countA) && OUT(gen_tA_ok) && (OUT(gen_tokA) != 0) == a_token() && (OUT(gen_privA) != 0) == a_private(1)))
/* the template may not contradict the mechanism about class and key type */
__CPROVER_ensures((OUT(gen_n) == 1) ==> (t_val(vp_in_ta, NA, CKA_CLASS, 8, class_of(M)) == class_of(M) && t_val(vp_in_ta, NA, CKA_KEY_TYPE, 8, keytype_of(M)) == keytype_of(M)))
__CPROVER_ensures(OUT(gethash_n) == 0 && SFX(SETOPTYPE_N) == 0)
__CPROVER_assigns(__CPROVER_object_whole(vp_out), VP_SOFTHSM_FRAME);
void vp_call_C_GenerateKey(void) { vp_rv = vp_GenerateKey(); }
void h_GenerateKey(void)
{
  VP_HAVOC_SOFTHSM(); __CPROVER_havoc_object(vp_in); __CPROVER_havoc_object(vp_in_ta); vp_call_C_GenerateKey();
  VP_COVER(OUT(gen_n) == 1 && M == CKM_AES_KEY_GEN && a_token() && IN(countA) == 2); VP_COVER(vp_rv == CKR_USER_NOT_LOGGED_IN); VP_COVER(vp_rv == CKR_SESSION_READ_ONLY);
  VP_COVER(vp_rv == CKR_TEMPLATE_INCONSISTENT); VP_COVER(vp_rv == CKR_MECHANISM_INVALID && !SES(MECH_PERMITTED) && M == CKM_AES_KEY_GEN); VP_COVER(OUT(gen_n) == 1 && IN(tNullA));
}

/* ---------------------------------------------------------------------------------------------- C_GenerateKeyPair */
#define GP_ARGS_OK (SES(INIT) && SES(VALID) && !SES(MECH_NULL) && !IN(phNullA) && !IN(phNullB) && !(IN(tNullA) && IN(countA) != 0) && !(IN(tNullB) && IN(countB) != 0))
CK_RV vp_GenerateKeyPair(void)
__CPROVER_requires(PRE)
__CPROVER_ensures(!SES(INIT) ==> (RV == CKR_CRYPTOKI_NOT_INITIALIZED && REFUSED))
__CPROVER_ensures(!GP_ARGS_OK ==> REFUSED)
/* C07 */
__CPROVER_ensures(!SES(MECH_PERMITTED) ==> REFUSED)
/* C01: either half private outside a user session, either half a token object through a read-only session: nothing is generated */
__CPROVER_ensures((GP_ARGS_OK && (a_private(0) || b_private()) && !VP_SES_USER) ==> REFUSED)
__CPROVER_ensures((GP_ARGS_OK && (a_token() || b_token()) && !SES(RW)) ==> REFUSED)
__CPROVER_ensures(OUT(gen_n) <= 1 && (OUT(gen_n) == 0 ==> REFUSED))
__CPROVER_ensures((OUT(gen_n) == 1) ==> (RV == IN(gen_rv) && OUT(gen_kind) == gen_of(M) && gen_of(M) >= G_RSA && gen_of(M) <= G_ED && OUT(gen_hsess) == SES(HSESSION) &&
                                        OUT(gen_cntA) == IN(countA) && OUT(gen_cntB) == IN(countB) && OUT(gen_tA_ok) && OUT(gen_tB_ok) &&
                                        (OUT(gen_tokA) != 0) == a_token() && (OUT(gen_privA) != 0) == a_private(0) && (OUT(gen_tokB) != 0) == b_token() && (OUT(gen_privB) != 0) == b_private()))
/* the templates may not contradict the mechanism: public half a public key, private half a private key, both of the mechanism's key type */
__CPROVER_ensures((OUT(gen_n) == 1) ==> (t_val(vp_in_ta, NA, CKA_CLASS, 8, CKO_PUBLIC_KEY) == CKO_PUBLIC_KEY && t_val(vp_in_tb, NB, CKA_CLASS, 8, CKO_PRIVATE_KEY) == CKO_PRIVATE_KEY &&
                                        t_val(vp_in_tb, NB, CKA_KEY_TYPE, 8, t_val(vp_in_ta, NA, CKA_KEY_TYPE, 8, keytype_of(M))) == keytype_of(M)))
__CPROVER_ensures(OUT(gethash_n) == 0 && SFX(SETOPTYPE_N) == 0)
__CPROVER_assigns(__CPROVER_object_whole(vp_out), VP_SOFTHSM_FRAME);
void vp_call_C_GenerateKeyPair(void) { vp_rv = vp_GenerateKeyPair(); }
void h_GenerateKeyPair(void)
{
  VP_HAVOC_SOFTHSM(); __CPROVER_havoc_object(vp_in); __CPROVER_havoc_object(vp_in_ta); __CPROVER_havoc_object(vp_in_tb); vp_call_C_GenerateKeyPair();
  VP_COVER(OUT(gen_n) == 1 && M == CKM_EC_KEY_PAIR_GEN && b_token() && !a_token()); VP_COVER(vp_rv == CKR_USER_NOT_LOGGED_IN && !a_private(0)); VP_COVER(vp_rv == CKR_SESSION_READ_ONLY && !b_token());
  VP_COVER(vp_rv == CKR_TEMPLATE_INCONSISTENT); VP_COVER(vp_rv == CKR_MECHANISM_INVALID && !SES(MECH_PERMITTED) && M == CKM_RSA_PKCS_KEY_PAIR_GEN);
}

/* ---------------------------------------------------------------------------------------------- C_GetMechanismInfo */
CK_RV vp_GetMechanismInfo(void)
__CPROVER_requires(PRE && OUT(getalgo_n) == 0 && OUT(recalgo_n) == 0)
__CPROVER_ensures(!SES(INIT) ==> RV == CKR_CRYPTOKI_NOT_INITIALIZED)
__CPROVER_ensures((IN(infoNull) || IN(slotNull)) ==> RV != CKR_OK)
/* C07: a mechanism the configuration removed is not described as available (consistent with C_GetMechanismList) */
__CPROVER_ensures(!SES(MECH_PERMITTED) ==> (RV != CKR_OK && (IN(infoNull) || (OUT(info_min) == 7 && OUT(info_max) == 7 && OUT(info_flags) == 7))))
/* only the mechanisms the library implements are described; the digests carry CKF_DIGEST and no key size */
__CPROVER_ensures((RV == CKR_OK && hash_of(M) != 0) ==> (OUT(info_flags) == CKF_DIGEST && OUT(info_min) == 0 && OUT(info_max) == 0))
__CPROVER_ensures((RV == CKR_OK && gen_of(M) != G_NONE) ==> ((OUT(info_flags) & (CKF_GENERATE | CKF_GENERATE_KEY_PAIR)) != 0))
/* every algorithm instance taken from the factory is given back */
__CPROVER_ensures(IN(algoNull) || OUT(recalgo_n) == OUT(getalgo_n))
__CPROVER_ensures(VP_NO_EFFECT && OUT(gen_n) == 0 && OUT(gethash_n) == 0)
__CPROVER_assigns(__CPROVER_object_whole(vp_out), VP_SOFTHSM_FRAME);
void vp_call_C_GetMechanismInfo(void) { vp_rv = vp_GetMechanismInfo(); }
void h_GetMechanismInfo(void)
{
  VP_HAVOC_SOFTHSM(); __CPROVER_havoc_object(vp_in); vp_call_C_GetMechanismInfo();
  VP_COVER(vp_rv == CKR_OK && M == CKM_SHA256); VP_COVER(vp_rv == CKR_OK && M == CKM_EC_KEY_PAIR_GEN); VP_COVER(vp_rv == CKR_MECHANISM_INVALID && !SES(MECH_PERMITTED) && M == CKM_AES_CBC);
  VP_COVER(vp_rv == CKR_MECHANISM_INVALID && SES(MECH_PERMITTED)); VP_COVER(vp_rv == CKR_SLOT_ID_INVALID);
}

/* ---------------------------------------------------------------------------------------------- C_DeriveKey (whole function) */
#include "k_gate.h"
#undef RV
#define RV __CPROVER_return_value
#define BCLS (OBJU_HAS(K0, CLASS) ? OBJU(K0, CLASS) : CKO_VENDOR_DEFINED)
#define BKT (OBJU_HAS(K0, KEY_TYPE) ? OBJU(K0, KEY_TYPE) : CKK_VENDOR_DEFINED)
#define IS_CONCAT (M == CKM_CONCATENATE_DATA_AND_BASE || M == CKM_CONCATENATE_BASE_AND_DATA || M == CKM_CONCATENATE_BASE_AND_KEY)
#define IS_ENCDATA (M == CKM_DES_ECB_ENCRYPT_DATA || M == CKM_DES_CBC_ENCRYPT_DATA || M == CKM_DES3_ECB_ENCRYPT_DATA || M == CKM_DES3_CBC_ENCRYPT_DATA || M == CKM_AES_ECB_ENCRYPT_DATA || M == CKM_AES_CBC_ENCRYPT_DATA)
/* which derivation a mechanism and base key select (0 = none: the base key does not fit the mechanism) */
#define DER_OF (M == CKM_DH_PKCS_DERIVE ? ((BCLS == CKO_PRIVATE_KEY && BKT == CKK_DH) ? D_DH : 0) : \
                M == CKM_ECDH1_DERIVE ? ((BCLS == CKO_PRIVATE_KEY && BKT == CKK_EC) ? D_ECDH : (BCLS == CKO_PRIVATE_KEY && BKT == CKK_EC_EDWARDS) ? D_EDDSA : 0) : \
                IS_CONCAT ? (BCLS == CKO_SECRET_KEY ? D_SYM : 0) : \
                IS_ENCDATA ? ((BCLS == CKO_SECRET_KEY && ((M == CKM_DES_ECB_ENCRYPT_DATA || M == CKM_DES_CBC_ENCRYPT_DATA) ? BKT == CKK_DES : \
                               (M == CKM_DES3_ECB_ENCRYPT_DATA || M == CKM_DES3_CBC_ENCRYPT_DATA) ? (BKT == CKK_DES2 || BKT == CKK_DES3) : BKT == CKK_AES)) ? D_SYM : 0) : 0)
/* the key to be derived, as the template says: class and key type are mandatory except for the concatenation mechanisms (generic secret) */
#define NEW_CLS t_val(vp_in_ta, NA, CKA_CLASS, 8, IS_CONCAT ? CKO_SECRET_KEY : (CK_ULONG)-1)
#define NEW_KT t_val(vp_in_ta, NA, CKA_KEY_TYPE, 8, IS_CONCAT ? CKK_GENERIC_SECRET : (CK_ULONG)-1)
#define NEW_KT_OK (NEW_KT == CKK_GENERIC_SECRET || NEW_KT == CKK_DES || NEW_KT == CKK_DES2 || NEW_KT == CKK_DES3 || NEW_KT == CKK_AES)
#define DK_ARGS_OK (SES(INIT) && SES(VALID) && !SES(MECH_NULL) && !IN(phNullA) && !IN(tNullA))
#define DREFUSED (RV != CKR_OK && VP_NO_EFFECT && OUT(der_n) == 0 && OUT(gen_n) == 0)
CK_RV vp_DeriveKey(void)
__CPROVER_requires(PRE && OUT(der_n) == 0 && SES(HOBJ0) != SES(HOBJ1))
__CPROVER_ensures((!DK_ARGS_OK || SES(TOKEN_NULL) || !KEY_OK) ==> DREFUSED)
/* C01: the base key, and the key to be derived */
__CPROVER_ensures((KEY_OK && OBJB(K0, PRIVATE) == 2 && !VP_SES_USER) ==> DREFUSED)
__CPROVER_ensures((DK_ARGS_OK && a_private(1) && !VP_SES_USER) ==> DREFUSED)
__CPROVER_ensures((DK_ARGS_OK && a_token() && !SES(RW)) ==> DREFUSED)
/* C07: usage flag, permitted mechanism (asked about THIS key), base key class and type */
__CPROVER_ensures((KEY_OK && (OBJB(K0, DERIVE) != 2 || !SES(MECH_PERMITTED) || DER_OF == 0)) ==> DREFUSED)
__CPROVER_ensures((OUT(der_n) > 0) ==> (OUT(der_n) == 1 && OUT(der_kind) == DER_OF && SFX(MECHPERM_N) >= 1 && SFX(MECHPERM_OBJ) == K0 && SFX(MECHPERM_MECH) == M && RV == IN(gen_rv)))
__CPROVER_ensures(OUT(der_n) == 0 ==> DREFUSED)
/* what is derived: a secret key of one of the five key types the template names, in this session, from this base key, with the template's flags */
__CPROVER_ensures((OUT(der_n) > 0) ==> (NEW_CLS == CKO_SECRET_KEY && NEW_KT_OK && OUT(der_keytype) == NEW_KT && OUT(der_hsess) == SES(HSESSION) && OUT(der_hbase) == SES(HARG0) && OUT(der_mech) == M && \
                                      OUT(der_cnt) == IN(countA) && (OUT(der_tok) != 0) == a_token() && (OUT(der_priv) != 0) == a_private(1)))
__CPROVER_ensures(OUT(gen_n) == 0 && OUT(gethash_n) == 0 && SFX(SETOPTYPE_N) == 0 && CNT(VALUE_READS) == 0)
__CPROVER_assigns(__CPROVER_object_whole(vp_out), VP_SOFTHSM_FRAME);
void vp_call_C_DeriveKey(void) { vp_rv = vp_DeriveKey(); }
void h_DeriveKey(void)
{
  VP_HAVOC_SOFTHSM(); __CPROVER_havoc_object(vp_in); __CPROVER_havoc_object(vp_in_ta); vp_call_C_DeriveKey();
  VP_COVER(OUT(der_n) == 1 && OUT(der_kind) == D_EDDSA); VP_COVER(OUT(der_n) == 1 && M == CKM_DH_PKCS_DERIVE && NEW_KT == CKK_AES); VP_COVER(OUT(der_n) == 1 && M == CKM_CONCATENATE_BASE_AND_KEY && IN(countA) == 0);
  VP_COVER(OUT(der_n) == 1 && M == CKM_DES3_CBC_ENCRYPT_DATA && BKT == CKK_DES2); VP_COVER(vp_rv == CKR_KEY_TYPE_INCONSISTENT && M == CKM_ECDH1_DERIVE); VP_COVER(vp_rv == CKR_TEMPLATE_INCOMPLETE); VP_COVER(vp_rv == CKR_USER_NOT_LOGGED_IN && OBJB(K0, PRIVATE) != 2);
}
