// environment of C_DigestInit / C_GenerateKey / C_GenerateKeyPair: hash factory (ghost answers), session setters
// (recorded), and the generate* members of SoftHSM as recorded effects (their bodies are not part of this unit)
#include "config.h"
#include "SoftHSM.h"
#include "CryptoFactory.h"
#include "SlotManager.h"
#include "shared.h"

static long vp_cf_store[8], vp_hash_store[16], vp_algo_store[16], vp_slotmgr_store[8];
Slot* SlotManager::getSlot(CK_SLOT_ID) { return IN(slotNull) ? (Slot*)0 : vp_slot(); }
AsymmetricAlgorithm* CryptoFactory::getAsymmetricAlgorithm(AsymAlgo::Type) { OUT(getalgo_n)++; return IN(algoNull) ? (AsymmetricAlgorithm*)0 : (AsymmetricAlgorithm*)(void*)&vp_algo_store[0]; }
void CryptoFactory::recycleAsymmetricAlgorithm(AsymmetricAlgorithm*) { OUT(recalgo_n)++; }
unsigned long AsymmetricAlgorithm::getMinKeySize() { return IN(minsz); }
unsigned long AsymmetricAlgorithm::getMaxKeySize() { return IN(maxsz); }
CryptoFactory* CryptoFactory::i() { return (CryptoFactory*)(void*)&vp_cf_store[0]; }
HashAlgorithm* CryptoFactory::getHashAlgorithm(HashAlgo::Type algorithm)
{
	OUT(gethash_n)++; OUT(gethash_kind) = (CK_ULONG)algorithm;
	return IN(hashNull) ? (HashAlgorithm*)0 : (HashAlgorithm*)(void*)&vp_hash_store[0];
}
void CryptoFactory::recycleHashAlgorithm(HashAlgorithm*) { OUT(recycle_n)++; }
bool HashAlgorithm::hashInit() { OUT(hashinit_n)++; return IN(hashInit_ok) != 0; }
void Session::setDigestOp(HashAlgorithm*) { OUT(setdigest_n)++; SFX(SESSION_SET_N)++; }
void Session::setHashAlgo(HashAlgo::Type a) { OUT(sethash_n)++; OUT(sethash_kind) = (CK_ULONG)a; SFX(SESSION_SET_N)++; }

static bool same_tmpl(CK_ATTRIBUTE_PTR p, CK_ULONG n, bool isNull, const CK_ULONG* src)
{
	if (isNull) return p == (CK_ATTRIBUTE_PTR)0;
	return p != (CK_ATTRIBUTE_PTR)0 && (n == 0 || n > VP_TA || p[0].type == src[0]);
}
static CK_RV gen1(int kind, CK_SESSION_HANDLE hSession, CK_ATTRIBUTE_PTR pT, CK_ULONG n, CK_BBOOL tok, CK_BBOOL priv)
{
	OUT(gen_n)++; SFX(CREATE_N)++; OUT(gen_kind) = kind; OUT(gen_hsess) = hSession; OUT(gen_cntA) = n; OUT(gen_tokA) = tok; OUT(gen_privA) = priv;
	OUT(gen_tA_ok) = same_tmpl(pT, n, IN(tNullA) != 0, &vp_in_ta[0]);
	return IN(gen_rv);
}
static CK_RV gen2(int kind, CK_SESSION_HANDLE hSession, CK_ATTRIBUTE_PTR pA, CK_ULONG nA, CK_ATTRIBUTE_PTR pB, CK_ULONG nB, CK_BBOOL tokA, CK_BBOOL privA, CK_BBOOL tokB, CK_BBOOL privB)
{
	OUT(gen_n)++; SFX(CREATE_N)++; OUT(gen_kind) = kind; OUT(gen_hsess) = hSession; OUT(gen_cntA) = nA; OUT(gen_cntB) = nB;
	OUT(gen_tokA) = tokA; OUT(gen_privA) = privA; OUT(gen_tokB) = tokB; OUT(gen_privB) = privB;
	OUT(gen_tA_ok) = same_tmpl(pA, nA, IN(tNullA) != 0, &vp_in_ta[0]);
	OUT(gen_tB_ok) = same_tmpl(pB, nB, IN(tNullB) != 0, &vp_in_tb[0]);
	return IN(gen_rv);
}
#define GEN1(name, kind) CK_RV SoftHSM::name(CK_SESSION_HANDLE hSession, CK_ATTRIBUTE_PTR pTemplate, CK_ULONG ulCount, CK_OBJECT_HANDLE_PTR, CK_BBOOL isOnToken, CK_BBOOL isPrivate) \
	{ return gen1(kind, hSession, pTemplate, ulCount, isOnToken, isPrivate); }
GEN1(generateDSAParameters, G_DSAPARAM) GEN1(generateDHParameters, G_DHPARAM) GEN1(generateDES, G_DES) GEN1(generateDES2, G_DES2)
GEN1(generateDES3, G_DES3) GEN1(generateAES, G_AES) GEN1(generateGeneric, G_GENERIC)
#define GEN2(name, kind) CK_RV SoftHSM::name(CK_SESSION_HANDLE hSession, CK_ATTRIBUTE_PTR pA, CK_ULONG nA, CK_ATTRIBUTE_PTR pB, CK_ULONG nB, CK_OBJECT_HANDLE_PTR, CK_OBJECT_HANDLE_PTR, \
	CK_BBOOL tokA, CK_BBOOL privA, CK_BBOOL tokB, CK_BBOOL privB) { return gen2(kind, hSession, pA, nA, pB, nB, tokA, privA, tokB, privB); }
GEN2(generateRSA, G_RSA) GEN2(generateDSA, G_DSA) GEN2(generateDH, G_DH) GEN2(generateEC, G_EC) GEN2(generateED, G_ED) GEN2(generateGOST, G_GOST)

// the SoftHSM instance: the configured mechanism list agrees with the ghost answer of isMechanismPermitted, so that a
// function may consult either
#define MK VP_MK_HSM(); VP_MK_MECH(); VP_INIT_CONTAINER(hsm->supportedMechanisms); hsm->supportedMechanisms.push_back(IN(other_mech)); \
	if (SES(MECH_PERMITTED)) hsm->supportedMechanisms.push_back(SES(MECH)); hsm->nrSupportedMechanisms = hsm->supportedMechanisms.size()
static void mk_tmpl(CK_ATTRIBUTE* t, CK_ULONG* vals, const CK_ULONG* src)
{
	for (int ti = 0; ti < VP_TA; ti++) { vals[ti] = src[ti * 3 + 2]; t[ti].type = src[ti * 3]; t[ti].ulValueLen = src[ti * 3 + 1]; t[ti].pValue = (CK_VOID_PTR)&vals[ti]; }
}
extern "C" CK_RV vp_DigestInit(void) { MK; return hsm->C_DigestInit(SES(HSESSION), pMech); }
extern "C" CK_RV vp_GenerateKey(void)
{
	MK; CK_ATTRIBUTE vp_tmplA[VP_TA]; CK_ULONG vals[VP_TA]; mk_tmpl(&vp_tmplA[0], &vals[0], &vp_in_ta[0]); CK_OBJECT_HANDLE h = 0;
	return hsm->C_GenerateKey(SES(HSESSION), pMech, IN(tNullA) ? (CK_ATTRIBUTE_PTR)0 : &vp_tmplA[0], IN(countA), IN(phNullA) ? (CK_OBJECT_HANDLE_PTR)0 : &h);
}
extern "C" CK_RV vp_GenerateKeyPair(void)
{
	MK; CK_ATTRIBUTE vp_tmplA[VP_TA], vp_tmplB[VP_TA]; CK_ULONG valsA[VP_TA], valsB[VP_TA]; mk_tmpl(&vp_tmplA[0], &valsA[0], &vp_in_ta[0]); mk_tmpl(&vp_tmplB[0], &valsB[0], &vp_in_tb[0]);
	CK_OBJECT_HANDLE hA = 0, hB = 0;
	return hsm->C_GenerateKeyPair(SES(HSESSION), pMech, IN(tNullA) ? (CK_ATTRIBUTE_PTR)0 : &vp_tmplA[0], IN(countA), IN(tNullB) ? (CK_ATTRIBUTE_PTR)0 : &vp_tmplB[0], IN(countB),
		IN(phNullA) ? (CK_OBJECT_HANDLE_PTR)0 : &hA, IN(phNullB) ? (CK_OBJECT_HANDLE_PTR)0 : &hB);
}
extern "C" CK_RV vp_GetMechanismInfo(void)
{
	MK; hsm->slotManager = (SlotManager*)(void*)&vp_slotmgr_store[0];
	CK_MECHANISM_INFO info; info.ulMinKeySize = 7; info.ulMaxKeySize = 7; info.flags = 7;
	CK_RV rv = hsm->C_GetMechanismInfo(SES(SLOTID), SES(MECH), IN(infoNull) ? (CK_MECHANISM_INFO_PTR)0 : &info);
	OUT(info_min) = info.ulMinKeySize; OUT(info_max) = info.ulMaxKeySize; OUT(info_flags) = info.flags;
	return rv;
}

// ---- C_DeriveKey: the four derive* members are recorded effects (their bodies: units softhsm_derive / softhsm_derive_asym)
static CK_RV der(int kind, CK_SESSION_HANDLE hSession, CK_MECHANISM_PTR pMechanism, CK_OBJECT_HANDLE hBaseKey, CK_ULONG ulCount, CK_KEY_TYPE keyType, CK_BBOOL tok, CK_BBOOL priv)
{
	OUT(der_n)++; SFX(CREATE_N)++; OUT(der_kind) = kind; OUT(der_hsess) = hSession; OUT(der_mech) = pMechanism->mechanism; OUT(der_hbase) = hBaseKey; OUT(der_cnt) = ulCount;
	OUT(der_keytype) = keyType; OUT(der_tok) = tok; OUT(der_priv) = priv;
	return IN(gen_rv);
}
#define DER(name, kind) CK_RV SoftHSM::name(CK_SESSION_HANDLE hSession, CK_MECHANISM_PTR pMechanism, CK_OBJECT_HANDLE hBaseKey, CK_ATTRIBUTE_PTR, CK_ULONG ulCount, CK_OBJECT_HANDLE_PTR, \
	CK_KEY_TYPE keyType, CK_BBOOL isOnToken, CK_BBOOL isPrivate) { return der(kind, hSession, pMechanism, hBaseKey, ulCount, keyType, isOnToken, isPrivate); }
DER(deriveDH, D_DH) DER(deriveECDH, D_ECDH) DER(deriveEDDSA, D_EDDSA) DER(deriveSymmetric, D_SYM)
extern "C" CK_RV vp_DeriveKey(void)
{
	MK; CK_ATTRIBUTE vp_tmplA[VP_TA]; CK_ULONG vals[VP_TA]; mk_tmpl(&vp_tmplA[0], &vals[0], &vp_in_ta[0]); CK_OBJECT_HANDLE h = 0;
	return hsm->C_DeriveKey(SES(HSESSION), pMech, SES(HARG0), IN(tNullA) ? (CK_ATTRIBUTE_PTR)0 : &vp_tmplA[0], IN(countA), IN(phNullA) ? (CK_OBJECT_HANDLE_PTR)0 : &h);
}
