#ifndef VP_MECHENT_SHARED_H
#define VP_MECHENT_SHARED_H
#include "softhsm_env.h"
#define VP_TA 2      /* entries per template */
enum vp_in_idx { I_hashNull, I_hashInit_ok, I_gen_rv, I_phNullA, I_phNullB, I_tNullA, I_tNullB, I_countA, I_countB, I_other_mech, I_slotNull, I_algoNull, I_minsz, I_maxsz, I_infoNull, VP_IN_N };
enum vp_out_idx { O_gethash_n, O_gethash_kind, O_hashinit_n, O_recycle_n, O_setdigest_n, O_sethash_n, O_sethash_kind,
                  O_gen_n, O_gen_kind, O_gen_tokA, O_gen_privA, O_gen_tokB, O_gen_privB, O_gen_hsess, O_gen_cntA, O_gen_cntB, O_gen_tA_ok, O_gen_tB_ok, O_getalgo_n, O_recalgo_n, O_info_min, O_info_max, O_info_flags, O_der_n, O_der_kind, O_der_keytype, O_der_tok, O_der_priv, O_der_hbase, O_der_hsess, O_der_cnt, O_der_mech, VP_OUT_N };
VP_C_BEGIN
extern CK_ULONG vp_in[VP_IN_N];
extern CK_ULONG vp_in_ta[VP_TA * 3];      /* template A: type, ulValueLen, value (8 bytes) */
extern CK_ULONG vp_in_tb[VP_TA * 3];      /* template B (private key template of C_GenerateKeyPair) */
extern CK_ULONG vp_out[VP_OUT_N];
VP_C_END
#define IN(x) vp_in[(int)I_##x]
#define OUT(x) vp_out[(int)O_##x]
#define TA(i, f) vp_in_ta[(i) * 3 + (f)]
#define TB(i, f) vp_in_tb[(i) * 3 + (f)]
/* generator kinds recorded by the environment's generate* definitions */
enum vp_der { D_NONE, D_DH, D_ECDH, D_EDDSA, D_SYM };
enum vp_gen { G_NONE, G_DSAPARAM, G_DHPARAM, G_DES, G_DES2, G_DES3, G_AES, G_GENERIC, G_RSA, G_DSA, G_DH, G_EC, G_ED, G_GOST };
#endif
