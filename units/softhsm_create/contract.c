/* C09 (a failing call leaves no object behind), C01 (no private object outside a user session, no token object
 * through a read-only session), C08 (history attributes of created keys), C11 (the handle returned is the one
 * registered for the new object): SoftHSM::CreateObject, which serves C_CreateObject and every generate / unwrap /
 * derive function. */
#include "shared.h"

CK_ULONG vp_in[VP_IN_N];
CK_ULONG vp_in_t3[VP_T3 * 3];
CK_ULONG vp_out[VP_OUT_N];
CK_RV vp_rv;
VP_SOFTHSM_CALLEE_CONTRACTS

/* what the template says (the last well-sized entry of a type wins), PKCS#11 defaults otherwise */
#define NT (SES(TCOUNT) < VP_T3 ? SES(TCOUNT) : VP_T3)
static int t_has(CK_ATTRIBUTE_TYPE t, CK_ULONG len) { for (CK_ULONG i = 0; i < VP_T3; i++) if (i < NT && T3(i, 0) == t && T3(i, 1) == len) return 1; return 0; }
static CK_ULONG t_val(CK_ATTRIBUTE_TYPE t, CK_ULONG len, CK_ULONG dflt) { CK_ULONG v = dflt; for (CK_ULONG i = 0; i < VP_T3; i++) if (i < NT && T3(i, 0) == t && T3(i, 1) == len) v = T3(i, 2); return v; }
static CK_ULONG t_class(void) { return t_val(CKA_CLASS, 8, CKO_DATA); }
static int t_token(void) { return (t_val(CKA_TOKEN, 1, 0) & 0xff) != 0; }
static int t_private(void)
{
  if (t_has(CKA_PRIVATE, 1)) return (t_val(CKA_PRIVATE, 1, 1) & 0xff) != 0;
  return !(t_class() == CKO_CERTIFICATE || t_class() == CKO_PUBLIC_KEY);     /* default: private, except certificates and public keys */
}
static int t_complete(void)
{
  if (!t_has(CKA_CLASS, 8)) return 0;
  if ((t_class() == CKO_PUBLIC_KEY || t_class() == CKO_PRIVATE_KEY || t_class() == CKO_SECRET_KEY) && !t_has(CKA_KEY_TYPE, 8)) return 0;
  if (t_class() == CKO_CERTIFICATE && !t_has(CKA_CERTIFICATE_TYPE, 8)) return 0;
  return 1;
}
/* position of setAttribute(type, bool v) on the new object in the log, -1 if none */
static int log_has(CK_ATTRIBUTE_TYPE type, CK_ULONG v)
{
  for (CK_ULONG i = 0; i < VP_LOG_MAX; i++) if (i < CNT(LOG) && LOGF(i, KIND) == E_SET_BOOL && LOGF(i, OBJ) == 2 && LOGF(i, TYPE) == type && LOGF(i, VAL) == v) return 1;
  return 0;
}

#define RV __CPROVER_return_value
#define GOOD_ARGS (SES(INIT) && SES(VALID) && !SES(NULL_OUT) && !IN(phNull) && !SES(TOKEN_NULL))
#define NOTHING_CREATED (OUT(created) == 0 && OUT(reg_n) == 0 && CNT(SET) == 0)
#define IS_KEY (t_class() == CKO_SECRET_KEY || t_class() == CKO_PRIVATE_KEY)

CK_RV vp_create(void)
__CPROVER_requires(VP_FRESH_GHOST && !(TOK(SO) && TOK(USER)) && (!TOK(SO) || SES(RW)) && IN(op) <= 6 && OUT(created) == 0 && OUT(reg_n) == 0 && OUT(save_n) == 0 && OUT(del_n) == 0)
__CPROVER_requires(SES(TCOUNT) <= VP_T3)      /* templates of <= 3 entries */
/* bad calls, incomplete templates, too many attributes: nothing happens */
__CPROVER_ensures((!GOOD_ARGS || !t_complete()) ==> (RV != CKR_OK && NOTHING_CREATED && OUT(h) == IN(h0)))
/* C01 */
__CPROVER_ensures((GOOD_ARGS && t_private() && !VP_SES_USER) ==> (RV != CKR_OK && NOTHING_CREATED))
__CPROVER_ensures((GOOD_ARGS && t_token() && !SES(RW)) ==> (RV != CKR_OK && NOTHING_CREATED))
/* C09: whenever the call fails, every object it created has been destroyed again, and no handle was registered */
__CPROVER_ensures((RV != CKR_OK) ==> (OUT(reg_n) == 0 && OUT(h) == IN(h0)))
__CPROVER_ensures((RV != CKR_OK && OUT(created) > 0 && !IN(createNull)) ==> (CNT(DESTROY) == OUT(created)))
__CPROVER_ensures(OUT(created) <= 1)
/* success: exactly one object, not destroyed, registered with the template's own flags, this session's slot and handle; C11 */
__CPROVER_ensures((RV == CKR_OK) ==> (OUT(created) == 1 && CNT(DESTROY) == 0 && OUT(reg_n) == 1 && OUT(reg_obj) == 2 && OUT(h) == VP_NEW_HANDLE))
__CPROVER_ensures((RV == CKR_OK) ==> (OUT(reg_token) == (CK_ULONG)t_token() && OUT(reg_priv) == (CK_ULONG)t_private() && OUT(create_token) == (CK_ULONG)t_token() && OUT(reg_slot) == SES(SLOTID)))
__CPROVER_ensures((RV == CKR_OK && !t_token()) ==> (OUT(reg_hsess) == SES(HSESSION) && OUT(create_hsess) == SES(HSESSION) && OUT(create_priv) == (CK_ULONG)t_private() && OUT(create_slot) == SES(SLOTID)))
/* the template is applied once, under the operation given, with the template's privacy */
__CPROVER_ensures((RV == CKR_OK) ==> (OUT(save_n) == 1 && OUT(save_op) == IN(op) && OUT(save_priv) == (CK_ULONG)t_private() && OUT(save_count) == SES(TCOUNT)))
/* C08: keys made by C_CreateObject are marked not local, not always-sensitive, not never-extractable - inside one transaction */
__CPROVER_ensures((RV == CKR_OK && IN(op) == 0x2 && IS_KEY) ==> (log_has(CKA_LOCAL, 0) && log_has(CKA_ALWAYS_SENSITIVE, 0) && log_has(CKA_NEVER_EXTRACTABLE, 0) && CNT(TX_START) == 1 && CNT(TX_COMMIT) == 1))
__CPROVER_ensures((RV == CKR_OK && IN(op) == 0x2 && t_class() == CKO_PUBLIC_KEY) ==> (log_has(CKA_LOCAL, 0) && CNT(TX_START) == 1 && CNT(TX_COMMIT) == 1))
__CPROVER_assigns(__CPROVER_object_whole(vp_out), VP_SOFTHSM_FRAME);

void vp_call_CreateObject(void) { vp_rv = vp_create(); }
void h_create(void)
{
  VP_HAVOC_SOFTHSM(); __CPROVER_havoc_object(vp_in); __CPROVER_havoc_object(vp_in_t3);
  vp_call_CreateObject();
  VP_COVER(vp_rv == CKR_OK && t_token() && t_class() == CKO_SECRET_KEY && IN(op) == 2);
  VP_COVER(vp_rv == CKR_OK && !t_token() && !t_private());
  VP_COVER(vp_rv == CKR_USER_NOT_LOGGED_IN);
  VP_COVER(vp_rv != CKR_OK && OUT(created) == 1 && !IN(createNull) && OUT(save_n) == 1);
  VP_COVER(vp_rv == CKR_TEMPLATE_INCOMPLETE);
}
