/* Session.cpp: the derived session state (C01, C03) and resetOp (C12).
 * Entries take no parameters: every input is a ghost input IN(x) (shared.h), havocked by the harness. */
#include "vp.h"
#include "k_session.h"
#include "shared.h"

CK_ULONG vp_in[VP_IN_N];
CK_ULONG vp_out[VP_OUT_N];
CK_RV vp_rv;

CK_STATE vp_getState(void)
K_GETSTATE(IN(so), IN(user), IN(rw));

CK_RV vp_getInfo(void)
__CPROVER_requires(!(IN(so) && IN(user)))
__CPROVER_ensures(IN(nullInfo) ==> (__CPROVER_return_value == CKR_ARGUMENTS_BAD))
__CPROVER_ensures((!IN(nullInfo)) ==> (__CPROVER_return_value == CKR_OK && OUT(slotID) == IN(slotNo)))
__CPROVER_ensures((!IN(nullInfo)) ==> (OUT(state) == VP_STATE_OF(IN(so), IN(user), IN(rw))))
__CPROVER_ensures((!IN(nullInfo)) ==> (OUT(flags) == (CKF_SERIAL_SESSION | (IN(rw) ? CKF_RW_SESSION : 0))))
__CPROVER_assigns(__CPROVER_object_whole(vp_out));

/* C12: after resetOp the session has no active operation, whatever was active before */
void vp_resetOp(void)
__CPROVER_requires(IN(which) <= 5)
__CPROVER_ensures(OUT(opType) == 0 /* SESSION_OP_NONE */)
__CPROVER_ensures(OUT(reauth) == 0)
__CPROVER_ensures(OUT(anyOpPtr) == 0)
__CPROVER_assigns(__CPROVER_object_whole(vp_out));

void vp_call_getState(void) { vp_rv = vp_getState(); }
void vp_call_getInfo(void)  { vp_rv = vp_getInfo(); }
void vp_call_resetOp(void)  { vp_resetOp(); }

void h_getState(void) { __CPROVER_havoc_object(vp_in); vp_call_getState();
  VP_COVER(vp_rv == CKS_RO_PUBLIC_SESSION); VP_COVER(vp_rv == CKS_RW_PUBLIC_SESSION); VP_COVER(vp_rv == CKS_RO_USER_FUNCTIONS);
  VP_COVER(vp_rv == CKS_RW_USER_FUNCTIONS); VP_COVER(vp_rv == CKS_RW_SO_FUNCTIONS); }
void h_getInfo(void) { __CPROVER_havoc_object(vp_in); vp_call_getInfo(); VP_COVER(vp_rv == CKR_OK); VP_COVER(vp_rv != CKR_OK); }
void h_resetOp(void) { __CPROVER_havoc_object(vp_in); vp_call_resetOp(); VP_COVER(IN(which) == 3 && IN(hasPriv)); VP_COVER(IN(which) == 0 && IN(opType) != 0); }
