#include "config.h"
#include "Session.h"
#include "Slot.h"
#include "CryptoFactory.h"
#include "FindOperation.h"
#include "shared.h"

// ---- environment: the token's login flags and the slot id are symbolic ghost inputs
bool Token::isSOLoggedIn() { return IN(so) != 0; }
bool Token::isUserLoggedIn() { return IN(user) != 0; }
CK_SLOT_ID Slot::getSlotID() { return IN(slotNo); }

// Objects of collaborating classes are never constructed (their constructors belong to other units):
// raw storage local to the entry is viewed as the object; only the fields set here are ever read.
#define VP_RAW(T, name) long name##_store[(sizeof(T) + 7) / 8]; T* name = (T*)(void*)&name##_store[0]

#define MK_SESSION() \
	VP_RAW(Token, tok); VP_RAW(Slot, slot); VP_RAW(Session, s); \
	s->token = tok; s->slot = slot; s->isReadWrite = IN(rw) != 0

extern "C" CK_STATE vp_getState(void)
{
	MK_SESSION();
	return s->getState();
}

extern "C" CK_RV vp_getInfo(void)
{
	MK_SESSION();
	CK_SESSION_INFO info;
	CK_RV rv = s->getInfo(IN(nullInfo) ? NULL : &info);
	if (!IN(nullInfo)) { OUT(slotID) = info.slotID; OUT(state) = info.state; OUT(flags) = info.flags; OUT(devErr) = info.ulDeviceError; }
	return rv;
}

#ifndef VP_NATIVE
// ---- environment for resetOp: recycling is effect-free for the session
static long cfStore[8];
CryptoFactory* CryptoFactory::i() { return (CryptoFactory*)(void*)&cfStore[0]; }
void CryptoFactory::recycleHashAlgorithm(HashAlgorithm*) {}
void CryptoFactory::recycleAsymmetricAlgorithm(AsymmetricAlgorithm*) {}
void CryptoFactory::recycleSymmetricAlgorithm(SymmetricAlgorithm*) {}
void CryptoFactory::recycleMacAlgorithm(MacAlgorithm*) {}
void FindOperation::recycle() {}
void AsymmetricAlgorithm::recyclePublicKey(PublicKey*) {}
void AsymmetricAlgorithm::recyclePrivateKey(PrivateKey*) {}
void SymmetricAlgorithm::recycleKey(SymmetricKey*) {}
void MacAlgorithm::recycleKey(SymmetricKey*) {}

extern "C" void vp_resetOp(void)
{
	MK_SESSION();
	long objStore[64]; void* o = (void*)&objStore[0];
	CK_ULONG which = IN(which);
	s->param = IN(hasParam) ? malloc(4) : NULL; s->paramLen = IN(hasParam) ? 4 : 0;
	s->digestOp = which == 1 ? (HashAlgorithm*)o : NULL;
	s->findOp = which == 2 ? (FindOperation*)o : NULL;
	s->asymmetricCryptoOp = which == 3 ? (AsymmetricAlgorithm*)o : NULL;
	s->symmetricCryptoOp = which == 4 ? (SymmetricAlgorithm*)o : NULL;
	s->macOp = which == 5 ? (MacAlgorithm*)o : NULL;
	s->publicKey = (which == 3 && IN(hasPub)) ? (PublicKey*)o : NULL;
	s->privateKey = (which == 3 && IN(hasPriv)) ? (PrivateKey*)o : NULL;
	s->symmetricKey = ((which == 4 || which == 5) && IN(hasSym)) ? (SymmetricKey*)o : NULL;
	s->setOpType((int)IN(opType));
	s->setReAuthentication(IN(reauth) != 0);
	s->resetOp();
	OUT(opType) = s->getOpType();
	OUT(reauth) = s->getReAuthentication();
	OUT(anyOpPtr) = s->digestOp || s->findOp || s->asymmetricCryptoOp || s->symmetricCryptoOp || s->macOp ||
	                  s->publicKey || s->privateKey || s->symmetricKey || s->param;
}
#endif
