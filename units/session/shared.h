/* ghost inputs/outputs shared by contract.c (C) and wrap.cpp (C++): arrays of unsigned long indexed by
 * the enums below (cbmc cannot link a struct type shared between its C and C++ front ends). */
#ifndef VP_SESSION_SHARED_H
#define VP_SESSION_SHARED_H
#include "vp.h"
/* resetOp: which operation object is set (0 none,1 digest,2 find,3 asym,4 sym,5 mac), keys, param, previous op type, reauth */
enum vp_in_idx { I_so, I_user, I_rw, I_slotNo, I_nullInfo,
                 I_which, I_hasPub, I_hasPriv, I_hasSym, I_hasParam, I_opType, I_reauth, VP_IN_N };
enum vp_out_idx { O_slotID, O_state, O_flags, O_devErr, O_opType, O_reauth, O_anyOpPtr, VP_OUT_N };
VP_C_BEGIN
extern CK_ULONG vp_in[VP_IN_N];
extern CK_ULONG vp_out[VP_OUT_N];
VP_C_END
#define IN(x) vp_in[I_##x]
#define OUT(x) vp_out[O_##x]
#endif
