#ifndef VP_PAD_SHARED_H
#define VP_PAD_SHARED_H
#include "vp.h"
#define VP_LEN_MAX 32
#define VP_WINP 48
enum vp_in_idx { I_len, I_bs16, I_w, VP_IN_N };
enum vp_out_idx { O_ret, O_size, O_byte_w, VP_OUT_N };
VP_C_BEGIN
extern CK_ULONG vp_in[VP_IN_N];
extern unsigned char vp_in_buf[VP_LEN_MAX];
extern CK_ULONG vp_out[VP_OUT_N];
VP_C_END
#define IN(x) vp_in[(int)I_##x]
#define OUT(x) vp_out[(int)O_##x]
#define BS (IN(bs16) ? 16UL : 8UL)
#endif
