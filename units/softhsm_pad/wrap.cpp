#include "config.h"
#include "SoftHSM.h"
#include "shared.h"

#define MK long hsm_store[(sizeof(SoftHSM) + 7) / 8 + 1]; SoftHSM* hsm = (SoftHSM*)(void*)&hsm_store[0]; \
	ByteString bs(vp_in_buf, IN(len))
#define PROBE OUT(size) = bs.size(); OUT(byte_w) = IN(w) < bs.size() ? bs[IN(w)] : 0

extern "C" void vp_pad(void) { MK; OUT(ret) = hsm->RFC5652Pad(bs, BS); PROBE; }
extern "C" void vp_unpad(void) { MK; OUT(ret) = hsm->RFC5652Unpad(bs, BS) ? 1 : 0; PROBE; }
extern "C" void vp_padunpad(void) { MK; hsm->RFC5652Pad(bs, BS); OUT(ret) = hsm->RFC5652Unpad(bs, BS) ? 1 : 0; PROBE; }
extern "C" void vp_pad3394(void) { MK; OUT(ret) = hsm->RFC3394Pad(bs); PROBE; }
