/* C13 / C17: the padding helpers of key wrapping.  PKCS#7 (RFC 5652) padding: 1..bs bytes, each equal to the count;
 * unpadding is its inverse and rejects everything else without touching memory outside the blob; RFC 3394 zero pad. */
#include "shared.h"
CK_ULONG vp_in[VP_IN_N];
unsigned char vp_in_buf[VP_LEN_MAX];
CK_ULONG vp_out[VP_OUT_N];
CK_RV vp_rv;

#define LEN IN(len)
#define W IN(w)
#define PADN (BS - LEN % BS)
#define PRE __CPROVER_requires(LEN <= VP_LEN_MAX && W < VP_WINP)

void vp_pad(void)
PRE
__CPROVER_ensures(OUT(size) == LEN + PADN && OUT(ret) == OUT(size) && OUT(size) % BS == 0 && OUT(size) > LEN)
__CPROVER_ensures((W < LEN) ==> (OUT(byte_w) == vp_in_buf[W]))
__CPROVER_ensures((W >= LEN && W < OUT(size)) ==> (OUT(byte_w) == PADN))
__CPROVER_assigns(__CPROVER_object_whole(vp_out));

/* last byte of the input blob */
#define LASTB vp_in_buf[LEN - 1]
#define GOOD_PAD_LEN (LEN != 0 && LEN % BS == 0 && LASTB != 0 && LASTB <= BS)
void vp_unpad(void)
PRE
/* rejects the empty blob, non-multiples of the block size, a zero or oversized count */
__CPROVER_ensures((!GOOD_PAD_LEN) ==> (OUT(ret) == 0 && OUT(size) == LEN))
/* acceptance: the blob shrinks by the count; the witness byte inside the padding had the count's value */
__CPROVER_ensures((OUT(ret) != 0) ==> (GOOD_PAD_LEN && OUT(size) == LEN - LASTB))
__CPROVER_ensures((OUT(ret) != 0 && W >= LEN - LASTB && W < LEN) ==> (vp_in_buf[W] == LASTB))
/* rejection leaves the blob alone */
__CPROVER_ensures((OUT(ret) == 0) ==> (OUT(size) == LEN))
__CPROVER_ensures((W < OUT(size)) ==> (OUT(byte_w) == vp_in_buf[W]))
__CPROVER_assigns(__CPROVER_object_whole(vp_out));

/* Unpad(Pad(x)) == x */
void vp_padunpad(void)
PRE
__CPROVER_ensures(OUT(ret) != 0 && OUT(size) == LEN)
__CPROVER_ensures((W < LEN) ==> (OUT(byte_w) == vp_in_buf[W]))
__CPROVER_assigns(__CPROVER_object_whole(vp_out));

void vp_pad3394(void)
PRE
__CPROVER_ensures(OUT(size) % 8 == 0 && OUT(size) >= LEN && OUT(size) < LEN + 8 && OUT(ret) == OUT(size))
__CPROVER_ensures((W < LEN) ==> (OUT(byte_w) == vp_in_buf[W]))
__CPROVER_ensures((W >= LEN && W < OUT(size)) ==> (OUT(byte_w) == 0))
__CPROVER_assigns(__CPROVER_object_whole(vp_out));

void vp_call_RFC5652Pad(void) { vp_pad(); }
void vp_call_RFC5652Unpad(void) { vp_unpad(); }
void vp_call_RFC5652PadUnpad(void) { vp_padunpad(); }
void vp_call_RFC3394Pad(void) { vp_pad3394(); }
#define HAVOC() do { __CPROVER_havoc_object(vp_in); __CPROVER_havoc_object(vp_in_buf); } while (0)
void h_pad(void) { HAVOC(); vp_call_RFC5652Pad(); VP_COVER(OUT(size) == 32 && LEN == 17); VP_COVER(OUT(size) == 16 && LEN == 8 && !IN(bs16)); VP_COVER(LEN == 0 && OUT(size) == 16); }
void h_unpad(void) { HAVOC(); vp_call_RFC5652Unpad(); VP_COVER(OUT(ret) && OUT(size) == 13); VP_COVER(!OUT(ret) && LEN == 16); VP_COVER(OUT(ret) && OUT(size) == 0); }
void h_padunpad(void) { HAVOC(); vp_call_RFC5652PadUnpad(); VP_COVER(LEN == 16); VP_COVER(LEN == 0); }
void h_pad3394(void) { HAVOC(); vp_call_RFC3394Pad(); VP_COVER(OUT(size) == 24 && LEN == 17); VP_COVER(OUT(size) == 16 && LEN == 16); }
