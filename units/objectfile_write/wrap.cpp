// environment of ObjectFile::writeAttributes / store / setAttribute / commitTransaction (cbmc: included at the end of the
// sliced ObjectFile.cpp): File and Generation answer ghost values and log every operation in order
#include "config.h"
#include "ObjectFile.h"
#include "File.h"
#include "Generation.h"
#include "shared.h"

// the literal object file format: field k of a successful write (0 = generation; then type, kind code, value per attribute)
static bool live(int a) { return a == 0 ? (IN(na) >= 1 && IN(kind0) != KD_NULLPTR) : (IN(na) >= 2 && IN(kind1) != KD_NULLPTR); }
static CK_ULONG wop_of(CK_ULONG kind) { return kind == KD_BOOL ? P_W_BOOL : kind == KD_ULONG ? P_W_ULONG : P_W_BYTES; }
static CK_ULONG wval_of(CK_ULONG kind, CK_ULONG val)
{
	if (kind == KD_BOOL) return val != 0;
	if (kind == KD_ULONG) return val;
	CK_ULONG len = (val >> 8) & 3; return len | ((len ? (val & 0xff) : 0) << 32);
}
static bool expect(CK_ULONG pos, int op, CK_ULONG val)
{
	if (pos == 0) return op == P_W_ULONG && val == IN(gen) + 1;
	CK_ULONG k = pos - 1;                      // field index behind the generation
	int a = -1;                                // attribute the field belongs to
	if (live(0)) { if (k < 3) a = 0; else { k -= 3; if (live(1) && k < 3) a = 1; } } else if (live(1) && k < 3) a = 1;
	if (a < 0) return false;
	CK_ULONG type = a == 0 ? IN(type0) : IN(type1), kind = a == 0 ? IN(kind0) : IN(kind1), v = a == 0 ? IN(val0) : IN(val1);
	if (k == 0) return op == P_W_ULONG && val == type;
	if (k == 1) return op == P_W_ULONG && val == kind;      /* KD_* = on-disk kind code 1 / 2 / 3 */
	return op == (int)wop_of(kind) && val == wval_of(kind, v);
}
static bool vp_quiet;   // set while the harness builds its objects
static bool vp_op(int op, CK_ULONG val, const File* f)
{
	if (vp_quiet) return true;
	CK_ULONG n = OUT(nops);
	bool ok = n < VP_OPS ? ANS(n) != 0 : false;
	OUT(nops) = n + 1;
	int obj = f == NULL ? 0 : (f->isReadable ? 1 : 2);
	bool isw = op == P_W_ULONG || op == P_W_BOOL || op == P_W_BYTES || op == P_W_MECHSET || op == P_W_ATTRMAP;
	if (OUT(fail_n) > 0 && (isw || op == P_TRUNCATE)) OUT(after_fail_w)++;
	if (isw) { OUT(writes)++; OUT(flush_ok_pending) = 0; if (!OUT(locked_obj)) OUT(lock_before_write_bad) = 1;
	           if (expect(OUT(fmt_pos), op, val) && !OUT(fmt_bad)) OUT(fmt_pos)++; else OUT(fmt_bad) = 1; }
	switch (op)
	{
		case P_SYNC: OUT(sync_n)++; break;
		case P_TRUNCATE: OUT(trunc_n)++; if (OUT(fail_n) > 0) OUT(trunc_after_fail)++; if (ok) OUT(trunc_ok_n)++; break;
		case P_GEN_UPDATE: OUT(update_n)++; break;
		case P_GEN_ROLLBACK: OUT(rollback_n)++; break;
		case P_FLUSH: if (ok && obj == 1) OUT(flush_ok_pending) = 1; break;
		case P_LOCK: if (ok && obj == 1) OUT(locked_obj) = 1; break;
		case P_UNLOCK: if (obj == 1) { OUT(unlock_obj_n)++; OUT(locked_obj) = 0; } else OUT(unlock_lock_n)++; break;
		case P_OPEN: OUT(open_obj)++; OUT(open_obj_create) = val; break;
		case P_OPEN_LOCKFILE: OUT(open_lock)++; break;
		case P_CLOSE: if (obj == 1) OUT(close_obj)++; else OUT(close_lock)++; break;
	}
	OUT(last_is_unlock_obj) = (op == P_UNLOCK && obj == 1) || (op == P_CLOSE && OUT(last_is_unlock_obj));
	if (!ok && obj == 2) OUT(lockfile_fail_n)++;
	if (!ok && obj != 2 && op != P_LOCK && op != P_UNLOCK && op != P_GEN_UPDATE && op != P_GEN_ROLLBACK && op != P_CLOSE) { if (OUT(fail_n) == 0) { OUT(first_fail_op) = (CK_ULONG)op; OUT(trunc_at_first_fail) = OUT(trunc_ok_n); } OUT(fail_n)++; }
	return ok;
}
// ---- File (its codecs' real bodies: units file_codec / file_attrmap)
File::File(std::string, int, bool forRead, bool forWrite, bool create, bool)
{
	// (the object file is opened for reading and writing, a lock file for writing only)
	isReadable = forRead; isWritable = forWrite; locked = false; stream = NULL;
	valid = vp_op(forRead ? P_OPEN : P_OPEN_LOCKFILE, create, this);
}
File::~File() { vp_op(P_CLOSE, locked, this); }
bool File::isValid() { return valid; }
bool File::lock(bool) { bool ok = vp_op(P_LOCK, 0, this); if (ok) locked = true; return ok; }
bool File::unlock() { bool ok = vp_op(P_UNLOCK, 0, this); locked = false; return ok; }
bool File::flush() { return vp_op(P_FLUSH, 0, this); }
bool File::truncate() { return vp_op(P_TRUNCATE, 0, this); }
bool File::writeULong(const unsigned long value) { return vp_op(P_W_ULONG, value, this); }
bool File::writeBool(const bool value) { return vp_op(P_W_BOOL, value ? 1 : 0, this); }
bool File::writeByteString(const ByteString& value) { return vp_op(P_W_BYTES, value.size() | ((CK_ULONG)(value.size() ? value.const_byte_str()[0] : 0) << 32), this); }
bool File::writeMechanismTypeSet(const std::set<CK_MECHANISM_TYPE>& value) { return vp_op(P_W_MECHSET, value.size(), this); }
bool File::writeAttributeMap(const std::map<CK_ATTRIBUTE_TYPE,OSAttribute>& value) { return vp_op(P_W_ATTRMAP, value.size(), this); }
// ---- Generation
static CK_ULONG vp_gen_now;
bool Generation::sync(File& f) { return vp_op(P_SYNC, 0, &f); }
void Generation::update() { vp_op(P_GEN_UPDATE, 0, NULL); vp_gen_now = IN(gen) + 1; }
unsigned long Generation::get() { return vp_gen_now; }
void Generation::rollback() { vp_op(P_GEN_ROLLBACK, 0, NULL); vp_gen_now = IN(gen); }

static OSAttribute* mk_attr(CK_ULONG kind, CK_ULONG val)
{
	if (kind == KD_BOOL) { bool b = val != 0; return new OSAttribute(b); }
	if (kind == KD_ULONG) { unsigned long u = val; return new OSAttribute(u); }
#ifdef VP_OFW_BYTES
	if (kind == KD_BYTES) { unsigned char bytes[4]; bytes[0] = (unsigned char)val; bytes[1] = 1; bytes[2] = 2; bytes[3] = 3; ByteString bs(&bytes[0], (val >> 8) & 3); return new OSAttribute(bs); }
#endif
	return (OSAttribute*)0;
}
static long vp_gen_store[8];
// the real constructor / destructor (index refresh, mutex, generation file) are outside this unit
ObjectFile::ObjectFile(OSToken* parent, const std::string inPath, int inUmask, const std::string inLockpath, bool isNew) {}
ObjectFile::~ObjectFile() {}
extern "C" void vp_objfile(void)
{
	// typed objects (member accesses through raw storage make the SAT instance explode): the object file and the
	// transaction lock file are built through the environment's own (empty) constructors
	vp_quiet = true;
	std::string nopath;
	ObjectFile ofobj((OSToken*)0, nopath, 077, nopath, false); ObjectFile* of = &ofobj;
	File* tx = new File(nopath, 077, false, true, true);     // (heap: commitTransaction deletes it)
	vp_quiet = false;
	of->umask = 077; of->gen = (Generation*)(void*)&vp_gen_store[0]; of->valid = IN(valid) != 0; of->token = NULL; of->objectMutex = NULL;
	of->inTransaction = IN(inTx) != 0;
	tx->valid = true; tx->locked = true;
	of->transactionLockFile = IN(txFileNull) ? (File*)0 : tx;
	vp_gen_now = IN(gen);
	if (IN(na) >= 1) of->attributes[IN(type0)] = mk_attr(IN(kind0), IN(val0));
	if (IN(na) >= 2) of->attributes[IN(type1)] = mk_attr(IN(kind1), IN(val1));
	switch (IN(entry))
	{
		case 0: { File f(of->path, of->umask, true, true, true, false); f.valid = true; f.locked = true; OUT(locked_obj) = 1; OUT(fail_n) = 0; OUT(open_obj) = 0; OUT(ret) = of->writeAttributes(f) ? 1 : 0; break; }
		case 1: of->store(false); OUT(ret) = 1; break;
		case 2: OUT(ret) = of->commitTransaction() ? 1 : 0; break;
		case 3: { unsigned long u = IN(setval); OSAttribute a(u); OUT(ret) = of->setAttribute(IN(settype), a) ? 1 : 0;
		          OSAttribute* p = of->attributes[IN(settype)]; OUT(attr_set) = p != NULL && p->isUnsignedLongAttribute() && p->getUnsignedLongValue() == IN(setval); break; }
	}
	OUT(valid_after) = of->valid; OUT(inTx_after) = of->inTransaction; OUT(txfile_after_null) = of->transactionLockFile == NULL;
	vp_quiet = true;
}
