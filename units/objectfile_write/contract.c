/* C05 ("a call that could not persist its effect must not return CKR_OK", stable on-disk format) and C09 (failures of the
 * store: disk full on flush, failed truncate, open): ObjectFile::writeAttributes / store / setAttribute /
 * commitTransaction over an environment File whose every operation can fail.
 * The object file format, literally: generation, then per attribute in key order: type, kind code (1 boolean, 2 unsigned
 * long, 3 byte string), value - each through the codec of that kind (units file_codec / file_attrmap prove the codecs). */
#include "shared.h"
CK_ULONG vp_in[VP_IN_N];
CK_ULONG vp_in_ans[VP_OPS];
CK_ULONG vp_out[VP_OUT_N];

#define LIVE0 (IN(na) >= 1 && IN(kind0) != KD_NULLPTR)
#define LIVE1 (IN(na) >= 2 && IN(kind1) != KD_NULLPTR)
/* number of fields of the literal format: generation + 3 per attribute that has a value */
#define NFIELDS (1 + (LIVE0 ? 3 : 0) + (LIVE1 ? 3 : 0))
/* (byte-string attributes are not part of this unit: cbmc reports a mismatch for them that the native twin refutes - an
 * artefact that was not tracked down; their codec is proved in unit file_codec) */
#define KIND_OK(k) ((k) == KD_BOOL || (k) == KD_ULONG || (k) == KD_NULLPTR)
#define KINDS_OK (KIND_OK(IN(kind0)) && KIND_OK(IN(kind1)))
static int out_zero(void) { for (int i = 0; i < VP_OUT_N; i++) if (vp_out[i] != 0) return 0; return 1; }
#define PRE (IN(na) <= VP_NA_MAX && KINDS_OK && (IN(na) < 2 || IN(type0) < IN(type1)) && IN(gen) < 0xffffffffUL && out_zero())
/* a complete, successful write of the object file: synchronised, truncated once, every field of the literal format in
 * order and nothing else, and - after the last write - a flush that succeeded; the file is unlocked afterwards */
#define WRITTEN (OUT(sync_n) == 1 && OUT(trunc_n) == 1 && OUT(trunc_ok_n) == 1 && OUT(update_n) == 1 && !OUT(fmt_bad) && OUT(fmt_pos) == NFIELDS && OUT(writes) == NFIELDS && \
                 OUT(flush_ok_pending) && OUT(fail_n) == 0)

void vp_objfile(void)
__CPROVER_requires(PRE && IN(entry) <= 3 && (IN(entry) != 3 || IN(na) <= 1))
__CPROVER_ensures(OUT(nops) <= VP_OPS)
/* ---- writeAttributes (entry 0) */
/* C05/C09: success is only reported when every field was written AND the flush that carries the data to the file succeeded */
__CPROVER_ensures((IN(entry) == 0 && OUT(ret)) ==> WRITTEN)
__CPROVER_ensures((IN(entry) == 0) ==> (OUT(ret) == (OUT(fail_n) == 0 ? 1 : 0)))
/* the file is unlocked whatever happens; after a failure nothing more is written; a generation number that did not reach the file is rolled back */
__CPROVER_ensures((IN(entry) == 0) ==> (OUT(unlock_obj_n) == 1 && OUT(last_is_unlock_obj) && OUT(after_fail_w) == 0 && OUT(fail_n) <= 1))
__CPROVER_ensures((IN(entry) == 0 && OUT(fail_n) == 1 && OUT(first_fail_op) == P_W_ULONG && OUT(writes) == 1) ==> OUT(rollback_n) == 1)
/* F-C09-3 (known finding): when the write fails, the old content of the file has not been destroyed yet */
__CPROVER_ensures((IN(entry) == 0 && !OUT(ret)) ==> OUT(trunc_at_first_fail) == 0)
/* ---- store (entry 1) */
__CPROVER_ensures((IN(entry) == 1 && (!IN(valid) || IN(inTx))) ==> (OUT(nops) == 0 && OUT(valid_after) == (IN(valid) != 0 ? 1 : 0)))
__CPROVER_ensures((IN(entry) == 1 && IN(valid) && !IN(inTx)) ==> (OUT(open_obj) == 1 && OUT(open_obj_create) == 1 && OUT(valid_after) == (OUT(fail_n) == 0 ? 1 : 0)))
__CPROVER_ensures((IN(entry) == 1 && IN(valid) && !IN(inTx) && OUT(valid_after)) ==> WRITTEN)
__CPROVER_ensures((IN(entry) == 1 && IN(valid) && !IN(inTx) && !vp_in_ans[0]) ==> (OUT(trunc_n) == 0 && OUT(writes) == 0))
__CPROVER_ensures((IN(entry) == 1) ==> (OUT(open_obj) == OUT(close_obj) && OUT(open_lock) == OUT(close_lock) && OUT(after_fail_w) == 0))
/* ---- commitTransaction (entry 2) */
__CPROVER_ensures((IN(entry) == 2 && (!IN(inTx) || IN(txFileNull))) ==> (!OUT(ret) && OUT(nops) == 0))
__CPROVER_ensures((IN(entry) == 2 && OUT(ret)) ==> (IN(valid) && WRITTEN && !OUT(inTx_after) && OUT(txfile_after_null) && OUT(unlock_lock_n) == 1))
__CPROVER_ensures((IN(entry) == 2 && IN(inTx) && !IN(txFileNull)) ==> (OUT(ret) == ((IN(valid) && OUT(fail_n) == 0) ? 1 : 0)))
__CPROVER_ensures((IN(entry) == 2 && IN(inTx) && !IN(txFileNull) && !OUT(ret)) ==> (!OUT(valid_after) && OUT(inTx_after)))
/* ---- setAttribute (entry 3) */
__CPROVER_ensures((IN(entry) == 3 && !IN(valid)) ==> (!OUT(ret) && OUT(nops) == 0))
__CPROVER_ensures((IN(entry) == 3 && IN(valid)) ==> (OUT(attr_set) && OUT(ret) == (OUT(valid_after) ? 1 : 0)))
__CPROVER_ensures((IN(entry) == 3 && IN(valid) && !IN(inTx)) ==> (OUT(ret) == (OUT(fail_n) == 0 ? 1 : 0) && (!OUT(ret) || (OUT(flush_ok_pending) && OUT(trunc_ok_n) == 1 && OUT(writes) >= 4))))
__CPROVER_assigns(__CPROVER_object_whole(vp_out));
void vp_call_objfile(void) { vp_objfile(); }
#define HAVOC __CPROVER_havoc_object(vp_in); __CPROVER_havoc_object(vp_in_ans)
/* one check per entry: the entry is a constant, so that cbmc only explores that function */
void h_write(void)
{
  HAVOC; IN(entry) = 0; vp_call_objfile();
  VP_COVER(OUT(ret) && LIVE0 && IN(kind0) == KD_ULONG);
  VP_COVER(!OUT(ret) && OUT(first_fail_op) == P_FLUSH);
  VP_COVER(!OUT(ret) && OUT(first_fail_op) == P_SYNC);
}
void h_store(void)
{
  HAVOC; IN(entry) = 1; vp_call_objfile();
  VP_COVER(OUT(valid_after) && IN(na) == 2 && IN(valid)); VP_COVER(IN(valid) && !OUT(valid_after) && OUT(first_fail_op) == P_OPEN); VP_COVER(IN(valid) && !IN(inTx) && !OUT(valid_after) && OUT(first_fail_op) == P_W_BOOL);
}
void h_commit(void)
{
  HAVOC; IN(entry) = 2; vp_call_objfile();
  VP_COVER(OUT(ret)); VP_COVER(!OUT(ret) && IN(inTx) && !IN(txFileNull));
}
void h_set(void)
{
  HAVOC; IN(entry) = 3; vp_call_objfile();
  VP_COVER(OUT(ret) && IN(na) == 1); VP_COVER(IN(valid) && !OUT(ret));
}
