#ifndef VP_OFW_SHARED_H
#define VP_OFW_SHARED_H
#include "vp.h"
#define VP_OPS 20      /* log capacity: file-system level operations of one call */
/* operations of the environment's File / Generation, in the order the code performs them */
enum vp_op { P_NONE, P_OPEN, P_LOCK, P_SYNC, P_TRUNCATE, P_GEN_UPDATE, P_W_ULONG, P_W_BOOL, P_W_BYTES, P_W_MECHSET, P_W_ATTRMAP, P_FLUSH, P_UNLOCK, P_GEN_ROLLBACK, P_CLOSE,
             P_OPEN_LOCKFILE };
/* kinds of the two attributes of the object */
enum vp_kind { KD_NONE, KD_BOOL, KD_ULONG, KD_BYTES, KD_NULLPTR };
enum vp_in_idx { I_na, I_type0, I_kind0, I_val0, I_type1, I_kind1, I_val1, I_gen, I_valid, I_inTx, I_txFileNull, I_openValid, I_entry, I_settype, I_setval, VP_IN_N };
enum vp_out_idx { O_ret, O_nops, O_valid_after, O_inTx_after, O_txfile_after_null, O_attr_set,
                  /* summaries kept by the environment's monitor (no log array: symbolic indices blow the SAT instance up) */
                  O_fail_n,          /* operations that answered failure */
                  O_after_fail_w,    /* write / truncate operations performed after an operation had failed */
                  O_fmt_pos,         /* writes that matched the literal format so far */
                  O_fmt_bad,         /* a write that did not match the next field of the literal format */
                  O_sync_n, O_trunc_n, O_trunc_after_fail, O_update_n, O_rollback_n, O_flush_ok_pending, /* 1 = a successful flush happened and no write since */
                  O_writes, O_unlock_obj_n, O_unlock_lock_n, O_last_is_unlock_obj, O_open_obj, O_close_obj, O_open_lock, O_close_lock, O_lock_before_write_bad, O_locked_obj,
                  O_open_obj_create, O_trunc_ok_n, O_first_fail_op, O_trunc_at_first_fail, O_lockfile_fail_n, VP_OUT_N };
VP_C_BEGIN
extern CK_ULONG vp_in[VP_IN_N];
extern CK_ULONG vp_in_ans[VP_OPS];        /* answer of the k-th operation (non-zero = success) */
extern CK_ULONG vp_out[VP_OUT_N];
VP_C_END
#define IN(x) vp_in[(int)I_##x]
#define OUT(x) vp_out[(int)O_##x]
#define ANS(k) vp_in_ans[k]
#endif
