/* constants of P11Attributes.h / P11Objects.h as the contracts (plain C) use them.  They are *checked* against
 * the real headers in wrap.cpp of units/p11attr_update (static assertions), so drift is a build error. */
#ifndef K_P11_H
#define K_P11_H
#define VP_OP_NONE 0x0
#define VP_OP_COPY 0x1
#define VP_OP_CREATE 0x2
#define VP_OP_DERIVE 0x3
#define VP_OP_GENERATE 0x4
#define VP_OP_SET 0x5
#define VP_OP_UNWRAP 0x6
#define VP_ck1 1UL
#define VP_ck2 2UL
#define VP_ck3 4UL
#define VP_ck4 8UL
#define VP_ck5 0x10UL
#define VP_ck6 0x20UL
#define VP_ck7 0x40UL
#define VP_ck8 0x80UL
#define VP_ck9 0x100UL
#define VP_ck10 0x200UL
#define VP_ck11 0x400UL
#define VP_ck12 0x800UL
#define VP_ck13 0x1000UL
#define VP_ck14 0x2000UL
#define VP_ck15 0x4000UL
#define VP_ck16 0x8000UL
#define VP_ck17 0x10000UL
#endif
