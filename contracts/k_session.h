/* Contract of Session::getState, shared between units/session (enforced on the real function) and the
 * units whose function under contract calls it (replaced by this text).  The CKS_* session states are
 * defined by PKCS#11 as exactly this function of (SO logged in, user logged in, R/W session). */
#ifndef K_SESSION_H
#define K_SESSION_H
#define VP_STATE_OF(so, user, rw) \
  ((so) ? CKS_RW_SO_FUNCTIONS : (user) ? ((rw) ? CKS_RW_USER_FUNCTIONS : CKS_RO_USER_FUNCTIONS) \
                                       : ((rw) ? CKS_RW_PUBLIC_SESSION : CKS_RO_PUBLIC_SESSION))
/* requires: SO and user are never logged in at the same time (invariant of SecureDataManager, proved in
 * units/sdm: every login path starts from "nobody logged in" or fails) - without it a harmless reordering of
 * the two tests in getState would be reported */
#define K_GETSTATE(so, user, rw) \
  __CPROVER_requires(!((so) && (user))) \
  __CPROVER_ensures(__CPROVER_return_value == VP_STATE_OF(so, user, rw)) \
  __CPROVER_assigns()
#endif
