/* Contracts of access.cpp, shared between the unit that enforces them on the real functions
 * (units/access) and every unit whose function under contract calls haveRead/haveWrite (there the
 * call is replaced by exactly this text).  Oracle: property C01. */
#ifndef K_ACCESS_H
#define K_ACCESS_H

#define VP_USER_STATE(s) ((s) == CKS_RO_USER_FUNCTIONS || (s) == CKS_RW_USER_FUNCTIONS)
#define VP_RW_STATE(s) ((s) == CKS_RW_PUBLIC_SESSION || (s) == CKS_RW_USER_FUNCTIONS || (s) == CKS_RW_SO_FUNCTIONS)

/* private object + nobody-but-the-user rule: any state other than the two user states refuses */
#define K_HAVEREAD(s, t, p) \
  __CPROVER_ensures(((p) && !VP_USER_STATE(s)) ==> (__CPROVER_return_value != CKR_OK)) \
  __CPROVER_assigns()

/* write: as read, and token objects only through read-write sessions */
#define K_HAVEWRITE(s, t, p) \
  __CPROVER_ensures(((p) && !VP_USER_STATE(s)) ==> (__CPROVER_return_value != CKR_OK)) \
  __CPROVER_ensures(((t) && !VP_RW_STATE(s)) ==> (__CPROVER_return_value != CKR_OK)) \
  __CPROVER_assigns()

#endif
