/* Contract shape of an operation-start gate of SoftHSM.cpp (shared by the *Init units).  The key is the object
 * the handle argument HARG0 denotes (environment object K0, if any). */
#ifndef K_GATE_H
#define K_GATE_H
#define K0 VP_OBJ_OF(SES(HARG0))
#define RV __CPROVER_return_value
#define REFUSED_CLEAN (RV != CKR_OK && VP_NO_EFFECT)
/* the key exists, is valid */
#define KEY_OK (SES(HARG0) != CK_INVALID_HANDLE && K0 < VP_NOBJ && OBJX(K0, VALID))

#define K_INIT_GATE(FLAG) \
  __CPROVER_requires(VP_FRESH_GHOST && !(TOK(SO) && TOK(USER)) && (!TOK(SO) || SES(RW)) && SES(HOBJ0) != SES(HOBJ1) && SES(OPTYPE) <= 0x10) \
  /* C12: a second operation cannot be started while one is active; the active one is left alone */ \
  __CPROVER_ensures((SES(INIT) && SES(VALID) && !SES(MECH_NULL) && !SES(TOKEN_NULL) && SES(OPTYPE) != 0) ==> (RV == CKR_OPERATION_ACTIVE && VP_NO_EFFECT)) \
  /* not initialised / bad session / bad key handle: refused without effect */ \
  __CPROVER_ensures((!SES(INIT) || !SES(VALID) || SES(MECH_NULL) || !KEY_OK) ==> REFUSED_CLEAN) \
  /* C01: a private key is usable only while the normal user is logged in */ \
  __CPROVER_ensures((KEY_OK && OBJB(K0, PRIVATE) == 2 && !VP_SES_USER) ==> REFUSED_CLEAN) \
  /* C07: the usage flag must be true */ \
  __CPROVER_ensures((KEY_OK && OBJB(K0, FLAG) != 2) ==> REFUSED_CLEAN) \
  /* C07: the mechanism must be permitted for this key (allowed list + configured mechanism list) */ \
  __CPROVER_ensures((KEY_OK && !SES(MECH_PERMITTED)) ==> REFUSED_CLEAN) \
  /* whenever the operation proceeds, isMechanismPermitted was asked about THIS key and THIS mechanism */ \
  __CPROVER_ensures((SFX(TAIL_N) > 0) ==> (SFX(MECHPERM_N) >= 1 && SFX(MECHPERM_OBJ) == K0 && SFX(MECHPERM_MECH) == SES(MECH))) \
  /* any error return of the prefix leaves no trace; the prefix itself never starts anything */ \
  __CPROVER_ensures((SFX(TAIL_N) == 0) ==> REFUSED_CLEAN) \
  __CPROVER_ensures(SFX(TAIL_N) <= 1 && SFX(SETOPTYPE_N) == 0 && CNT(VALUE_READS) == 0 && CNT(SET) == 0) \
  __CPROVER_assigns(VP_SOFTHSM_FRAME)
#endif
