#!/usr/bin/env python3
"""Regenerates MANIFEST.json from the registry below (kept as a script so the file stays valid and in sync)."""
import json, os, glob
V = os.path.dirname(os.path.abspath(__file__))

CLAIMED = {
 # id: (level text, level note, technique, design_ref)
}
NA = {
}
exec(open(os.path.join(V, 'manifest_registry.py')).read())

units_by_prop = {}
for d in sorted(glob.glob(os.path.join(V, 'units', '*', 'unit.json'))):
    u = json.load(open(d))
    props = set(u.get('properties', []))
    for c in u.get('checks', []):
        props |= set(c.get('properties', []))
    for p in props:
        units_by_prop.setdefault(p, []).append(u['unit'])

checks = []
for pid in sorted(CLAIMED):
    text, note, tech, ref = CLAIMED[pid]
    checks.append({
        'property_id': pid,
        'quick_cmd': './bin/vcheck %s --tier quick' % pid,
        'thorough_cmd': './bin/vcheck %s --tier thorough' % pid,
        'evidence_file': 'evidence/%s.json' % pid,
        'replay_cmd_template': './bin/vcheck --replay {path}',
        'engine': 'vcheck',
        'level_claimed': {'category': 'proof', 'text': text, 'design_ref': ref},
        'level_note': note,
        'technique': tech,
    })
allp = [json.loads(l)['id'] for l in open(os.path.join(V, 'properties.jsonl'))]
na = []
for pid in allp:
    if pid in CLAIMED:
        continue
    na.append({'property_id': pid, 'reason': NA.get(pid, 'no check built yet')})
m = {
 'version': 1,
 'setup_cmd': 'python3 -c "import json,sys; json.load(open(\'MANIFEST.json\'))" && cbmc --version >/dev/null && goto-cc --version >/dev/null',
 'hooks': {'guard': 'SOFTHSM_VERIF', 'enable': 'no hooks: contracts live in /verif and bind to /repo functions by name; nothing in /repo is compiled differently', 'baseline_off_cmd': 'cmake --build /repo/_build && ctest --test-dir /repo/_build -j8 --timeout 900', 'source_commits': [], 'add_only': True},
 'engines': [{'name': 'vcheck', 'path': 'bin/vcheck', 'serves_properties': sorted(CLAIMED), 'kind_free_text': 'contract-based deductive verification: real /repo function text sliced per run, goto-cc (C++ front end) + goto-instrument --dfcc code contracts + cbmc; counterexamples replayed on a natively compiled twin of the real code'}],
 'checks': checks,
 'not_applicable': na,
 'notes': 'See DESIGN.md. Exit codes of every check: 0 all obligations discharged, 1 VIOLATION (a named obligation fails), 2 INCONCLUSIVE (tool error, extraction miss, timeout, vacuity guard) - never reported as a violation.',
}
json.dump(m, open(os.path.join(V, 'MANIFEST.json'), 'w'), indent=1)
print('claimed', sorted(CLAIMED), 'na', [x['property_id'] for x in na])
