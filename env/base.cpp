// env/base.cpp - linked into every unit (both modes): the collaborators that carry no state any
// contract observes.  Logging is an observer only.
#include "config.h"
#include "log.h"
#include <stdarg.h>

void softHSMLog(const int /*loglevel*/, const char* /*functionName*/, const char* /*fileName*/,
                const int /*lineNo*/, const char* /*format*/, ...)
{
}
