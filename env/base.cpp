// env/base.cpp - linked into every unit (both modes): the collaborators that carry no state any
// contract observes.  Logging is an observer only.
#include "config.h"
#include "log.h"
#include <stdarg.h>

void softHSMLog(const int /*loglevel*/, const char* /*functionName*/, const char* /*fileName*/,
                const int /*lineNo*/, const char* /*format*/, ...)
{
}

#ifdef VP_NATIVE
// native twin only: ByteString's SecureAllocator registers every buffer; the registry is irrelevant to every
// contract and its real implementation needs the mutex factory
#include "SecureMemoryRegistry.h"
static long vp_smr_store[64];
SecureMemoryRegistry* SecureMemoryRegistry::i() { return (SecureMemoryRegistry*)(void*)vp_smr_store; }
void SecureMemoryRegistry::add(void*, size_t) {}
size_t SecureMemoryRegistry::remove(void*) { return 0; }
#endif
