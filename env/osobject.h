/* env/osobject.h - ghost records behind the environment's OSObject (DESIGN.md 2.6).
 *
 * K objects; each has a fixed table of well-known attributes.  Every cell is a ghost INPUT chosen by the
 * harness (unconstrained), every mutating or value-revealing call is recorded in ghost OUTPUT counters and
 * in a small log.  Plain unsigned long arrays: the only data cbmc can link between its C and C++ front ends.
 */
#ifndef VP_ENV_OSOBJECT_H
#define VP_ENV_OSOBJECT_H
#include "vp.h"

#define VP_NOBJ 3
/* boolean attributes: cell = 0 absent, 1 CK_FALSE, 2 CK_TRUE */
enum vp_battr { B_TOKEN, B_PRIVATE, B_MODIFIABLE, B_COPYABLE, B_DESTROYABLE, B_SENSITIVE, B_EXTRACTABLE,
                B_WRAP_WITH_TRUSTED, B_TRUSTED, B_ENCRYPT, B_DECRYPT, B_SIGN, B_VERIFY, B_WRAP, B_UNWRAP, B_DERIVE,
                B_ALWAYS_AUTHENTICATE, B_ALWAYS_SENSITIVE, B_NEVER_EXTRACTABLE, B_LOCAL, B_SIGN_RECOVER, B_VERIFY_RECOVER,
                B_OTHER, VP_NB };
/* unsigned long attributes: cell pair (exists, value) */
enum vp_uattr { U_CLASS, U_KEY_TYPE, U_CERTIFICATE_TYPE, U_KEY_GEN_MECHANISM, U_VALUE_LEN, U_OTHER, VP_NU };
/* other per-object inputs */
enum vp_oattr { X_VALID,            /* isValid() */
                X_OTHER_EXISTS,     /* the one attribute of arbitrary type IN_OBJ_X(o, X_OTHER_TYPE) exists ... */
                X_OTHER_TYPE,
                X_OTHER_KIND,       /* 1 bool, 2 ulong, 3 byte string, 4 mechanism set, 5 attribute map */
                X_OTHER_ULONG,      /* its value when bool/ulong */
                X_OTHER_LEN,        /* its length when byte string (<= VP_BS_MAX), element count when set/map (<= 2) */
                X_SET_FAILS,        /* setAttribute answers false */
                X_ALLOWED_N,        /* CKA_ALLOWED_MECHANISMS: number of entries 0..2 (0 = attribute absent or empty) */
                X_ALLOWED_0, X_ALLOWED_1,
                X_TX_FAILS,         /* start/commitTransaction answer false */
                X_DESTROY_FAILS,
                VP_NX };
#define VP_BS_MAX 8

/* effect kinds in the log */
enum vp_eff { E_SET_BOOL = 1, E_SET_ULONG, E_SET_BYTES, E_SET_MECHSET, E_SET_MAP, E_DELETE_ATTR, E_DESTROY, E_TX_START, E_TX_COMMIT, E_TX_ABORT };
#define VP_LOG_MAX 24
/* log record: kind, object, attribute type, value (bool/ulong; for bytes: length), provenance (bytes: 1 = is the
 * output of Token::encrypt made during this call, 0 = anything else) */
enum vp_logf { L_KIND, L_OBJ, L_TYPE, L_VAL, L_PROV, VP_LOGF };

enum vp_cnt { N_VALUE_READS,   /* getAttribute / getByteStringValue of a byte-string valued attribute, peek */
              N_SET, N_DELETE, N_DESTROY, N_TX_START, N_TX_COMMIT, N_TX_ABORT, N_LOG,
              N_ENCRYPT, N_DECRYPT, VP_NCNT };

/* Token::encrypt / Token::decrypt / login flags (env/token_env.cpp) */
enum vp_tok { T_SO, T_USER, T_ENC_OK, T_ENC_LEN, T_DEC_OK, T_DEC_LEN, VP_NTOK };
#define VP_ENC_MAX 12

VP_C_BEGIN
extern CK_ULONG vp_in_tok[VP_NTOK];
extern unsigned char vp_in_encbytes[VP_ENC_MAX];  /* what Token::encrypt produces */
extern unsigned char vp_in_decbytes[VP_BS_MAX];   /* what Token::decrypt produces */
extern CK_ULONG vp_in_objb[VP_NOBJ * VP_NB];
extern CK_ULONG vp_in_obju[VP_NOBJ * VP_NU * 2];
extern CK_ULONG vp_in_objx[VP_NOBJ * VP_NX];
extern unsigned char vp_in_bytes[VP_NOBJ * VP_BS_MAX];   /* contents of the X_OTHER byte string */
extern CK_ULONG vp_g_cnt[VP_NCNT];
extern CK_ULONG vp_g_log[VP_LOG_MAX * VP_LOGF];
VP_C_END

/* enumerators are cast: the C++ front end resolves `enum + int` to ByteString operator+ (front-end defect F5) */
/* cells are read modulo 3, so every 64-bit value of the ghost input denotes absent / false / true */
#define OBJB(o, a) (vp_in_objb[(o) * (int)VP_NB + (int)B_##a] % 3)
#define OBJU_HAS(o, a) vp_in_obju[((o) * (int)VP_NU + (int)U_##a) * 2]
#define OBJU(o, a) vp_in_obju[((o) * (int)VP_NU + (int)U_##a) * 2 + 1]
#define OBJX(o, a) vp_in_objx[(o) * (int)VP_NX + (int)X_##a]
#define TOK(x) vp_in_tok[T_##x]
#define CNT(c) vp_g_cnt[N_##c]
#define LOGF(i, f) vp_g_log[(i) * (int)VP_LOGF + (int)L_##f]
/* value of a boolean attribute with PKCS#11/SoftHSM default d when absent */
#define OBJBV(o, a, d) (OBJB(o, a) == 0 ? (d) : (OBJB(o, a) == 2))

#define VP_HAVOC_OBJECTS() do { __CPROVER_havoc_object(vp_in_objb); __CPROVER_havoc_object(vp_in_obju); \
    __CPROVER_havoc_object(vp_in_objx); __CPROVER_havoc_object(vp_in_bytes); __CPROVER_havoc_object(vp_in_tok); \
    __CPROVER_havoc_object(vp_in_encbytes); __CPROVER_havoc_object(vp_in_decbytes); } while (0)
/* frame of everything the environment may write */
#define VP_ENV_FRAME __CPROVER_object_whole(vp_g_cnt), __CPROVER_object_whole(vp_g_log)


/* attribute type -> cell index (shared by the C++ environment and by spec functions in contract files) */
static inline int vp_bidx(CK_ATTRIBUTE_TYPE t)
{
	switch (t)
	{
		case CKA_TOKEN: return B_TOKEN; case CKA_PRIVATE: return B_PRIVATE; case CKA_MODIFIABLE: return B_MODIFIABLE;
		case CKA_COPYABLE: return B_COPYABLE; case CKA_DESTROYABLE: return B_DESTROYABLE; case CKA_SENSITIVE: return B_SENSITIVE;
		case CKA_EXTRACTABLE: return B_EXTRACTABLE; case CKA_WRAP_WITH_TRUSTED: return B_WRAP_WITH_TRUSTED; case CKA_TRUSTED: return B_TRUSTED;
		case CKA_ENCRYPT: return B_ENCRYPT; case CKA_DECRYPT: return B_DECRYPT; case CKA_SIGN: return B_SIGN; case CKA_VERIFY: return B_VERIFY;
		case CKA_WRAP: return B_WRAP; case CKA_UNWRAP: return B_UNWRAP; case CKA_DERIVE: return B_DERIVE;
		case CKA_ALWAYS_AUTHENTICATE: return B_ALWAYS_AUTHENTICATE; case CKA_ALWAYS_SENSITIVE: return B_ALWAYS_SENSITIVE;
		case CKA_NEVER_EXTRACTABLE: return B_NEVER_EXTRACTABLE; case CKA_LOCAL: return B_LOCAL;
		case CKA_SIGN_RECOVER: return B_SIGN_RECOVER; case CKA_VERIFY_RECOVER: return B_VERIFY_RECOVER;
	}
	return -1;
}
static inline int vp_uidx(CK_ATTRIBUTE_TYPE t)
{
	switch (t)
	{
		case CKA_CLASS: return U_CLASS; case CKA_KEY_TYPE: return U_KEY_TYPE; case CKA_CERTIFICATE_TYPE: return U_CERTIFICATE_TYPE;
		case CKA_KEY_GEN_MECHANISM: return U_KEY_GEN_MECHANISM; case CKA_VALUE_LEN: return U_VALUE_LEN;
	}
	return -1;
}

#ifdef __cplusplus
class OSObject;
OSObject* vp_obj(int k);       /* the k-th environment object */
int vp_obj_index(OSObject* p); /* -1 if p is none of them */
#endif
#endif
