/* definitions of the ghost arrays of env/osobject.h (C, so that contract files can name them) */
#include "osobject.h"
CK_ULONG vp_in_objb[VP_NOBJ * VP_NB];
CK_ULONG vp_in_obju[VP_NOBJ * VP_NU * 2];
CK_ULONG vp_in_objx[VP_NOBJ * VP_NX];
unsigned char vp_in_bytes[VP_NOBJ * VP_BS_MAX];
CK_ULONG vp_g_cnt[VP_NCNT];
CK_ULONG vp_g_log[VP_LOG_MAX * VP_LOGF];
CK_ULONG vp_in_tok[VP_NTOK];
unsigned char vp_in_encbytes[VP_ENC_MAX];
unsigned char vp_in_decbytes[VP_BS_MAX];
