#include "softhsm_env.h"
CK_ULONG vp_in_ses[VP_NSES];
CK_ULONG vp_g_sfx[VP_NSFX];
