#include "softhsm_env.h"
CK_ULONG vp_in_ses[VP_NSES];
CK_ULONG vp_g_sfx[VP_NSFX];
CK_ULONG vp_in_tmpl[VP_TMPL_MAX * VP_NTF];
unsigned char vp_in_mparam[16];
