// env/softhsm_env.cpp - collaborators of SoftHSM.cpp functions: HandleManager lookups, the Session accessors and
// the access matrix (by contract).  CBMC mode and native mode share this file; the objects behind the returned
// pointers are raw storage (their classes' real bodies are units of their own).
#include "config.h"
#include "SoftHSM.h"
#include "HandleManager.h"
#include "Session.h"
#include "access.h"
#include "softhsm_env.h"

static long vp_session_store[(sizeof(Session) + 7) / 8 + 1];
static long vp_token_store[(sizeof(Token) + 7) / 8 + 1];
static long vp_slot_store[(sizeof(Slot) + 7) / 8 + 1];
Session* vp_session() { return (Session*)(void*)&vp_session_store[0]; }
Token* vp_token() { return (Token*)(void*)&vp_token_store[0]; }
Slot* vp_slot() { return (Slot*)(void*)&vp_slot_store[0]; }

// ---- HandleManager
CK_VOID_PTR HandleManager::getSession(const CK_SESSION_HANDLE hSession)
{
	if (SES(VALID) && hSession == SES(HSESSION)) return (CK_VOID_PTR)vp_session();
	return NULL;
}

CK_VOID_PTR HandleManager::getObject(const CK_OBJECT_HANDLE hObject)
{
	if (hObject == CK_INVALID_HANDLE) return NULL;
	if (hObject == SES(HOBJ0)) return (CK_VOID_PTR)vp_obj(0);
	if (hObject == SES(HOBJ1)) return (CK_VOID_PTR)vp_obj(1);
#ifdef VP_ENV_GETOBJECT_NEW
	// the object a CreateObject stub made during this call (environment object 2) under the fresh handle 777
	if (hObject == 777UL && SFX(CREATE_N) > 0 && SES(NEW_RESOLVES)) return (CK_VOID_PTR)vp_obj(2);
#endif
	return NULL;
}

void HandleManager::destroyObject(const CK_OBJECT_HANDLE hObject)
{
	SFX(HM_DESTROY_N)++;
	SFX(HM_DESTROY_H) = hObject;
}

// ---- Session
Token* Session::getToken() { return SES(TOKEN_NULL) ? (Token*)0 : vp_token(); }
Slot* Session::getSlot() { return vp_slot(); }
int Session::getOpType() { return (int)SES(OPTYPE); }
void Session::setOpType(int inOperation) { SFX(SETOPTYPE_N)++; SFX(SETOPTYPE_LAST) = (CK_ULONG)inOperation; }
void Session::resetOp() { SFX(RESETOP_N)++; }
bool Session::isRW() { return SES(RW) != 0; }
CK_STATE Session::getState() { return vpi_getState(); }
#ifdef VP_ENV_DISTINCT_SM_HANDLE
// the session manager's own id of a session is not the handle the application holds (HandleManager issues that one)
CK_SESSION_HANDLE Session::getHandle() { return SES(HSESSION) ^ 0x5a5aUL; }
#else
CK_SESSION_HANDLE Session::getHandle() { return SES(HSESSION); }
#endif
bool Session::getReAuthentication() { return SES(REAUTH) != 0; }
void Session::setReAuthentication(bool v) { SFX(SETREAUTH_N)++; SFX(SETREAUTH_LAST) = v ? 1 : 0; }
HashAlgo::Type Session::getHashAlgo() { return (HashAlgo::Type)SES(HASHALGO); }
bool Session::getAllowMultiPartOp() { return SES(ALLOW_MULTI) != 0; }
bool Session::getAllowSinglePartOp() { return SES(ALLOW_SINGLE) != 0; }
CK_SLOT_ID Slot::getSlotID() { return SES(SLOTID); }

// ---- access matrix: seen through the contracts of units/access
CK_RV haveRead(CK_STATE sessionState, CK_BBOOL isTokenObject, CK_BBOOL isPrivateObject)
{
	SFX(HR_N)++; SFX(HR_STATE) = sessionState; SFX(HR_TOKEN) = isTokenObject; SFX(HR_PRIVATE) = isPrivateObject;
	return vpi_haveRead(sessionState, isTokenObject, isPrivateObject);
}

CK_RV haveWrite(CK_STATE sessionState, CK_BBOOL isTokenObject, CK_BBOOL isPrivateObject)
{
	SFX(HW_N)++; SFX(HW_STATE) = sessionState; SFX(HW_TOKEN) = isTokenObject; SFX(HW_PRIVATE) = isPrivateObject;
	return vpi_haveWrite(sessionState, isTokenObject, isPrivateObject);
}

#ifndef VP_REAL_MECHPERM
// ---- SoftHSM::isMechanismPermitted: real body under contract in unit softhsm_mechperm
bool SoftHSM::isMechanismPermitted(OSObject* key, CK_MECHANISM_PTR pMechanism)
{
	SFX(MECHPERM_N)++;
	SFX(MECHPERM_OBJ) = (CK_ULONG)vp_obj_index(key);
	SFX(MECHPERM_MECH) = pMechanism->mechanism;
	return SES(MECH_PERMITTED) != 0;
}
#endif

static long vp_hm_store[4];
HandleManager* vp_hm() { return (HandleManager*)(void*)&vp_hm_store[0]; }

#ifndef VP_REAL_OAEPCHECK
CK_RV SoftHSM::MechParamCheckRSAPKCSOAEP(CK_MECHANISM_PTR) { return SES(OAEP_RV); }
#endif

// the tail of a cut function (engine/slice.py cut): an effect, then the contract stub
CK_RV vp_tail() { SFX(TAIL_N)++; return vpi_tail(); }
