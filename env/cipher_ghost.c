#include "cipher_env.h"
CK_ULONG vp_in_cip[VP_NCIP];
CK_ULONG vp_g_cfx[VP_NCFX];
unsigned char vp_in_cipout[2 * VP_CIP_OUT_MAX];
