// env/attrmap_holder_none.cpp - N11 holder for units that never store an attribute map (and that use the
// array-backed std::map stub, which cannot hold OSAttribute by value): storing one is a stub limit, reading yields
// the empty map (zero-initialised static storage = an empty array map).
#include "vp.h"
#ifndef VP_NATIVE_DYN
#include "config.h"
#include "OSAttribute.h"
typedef std::map<CK_ATTRIBUTE_TYPE,OSAttribute> vp_attrmap;
static long vp_empty_attrmap_store[16];
vp_attrmap_holder::vp_attrmap_holder() { p = 0; }
vp_attrmap_holder& vp_attrmap_holder::operator=(const vp_attrmap&)
{
	__CPROVER_assert(0, "VP_STUB_LIMIT attribute-map valued attribute stored in a unit without attribute-map support");
	return *this;
}
vp_attrmap& vp_attrmap_holder::get() const { return *(vp_attrmap*)(void*)&vp_empty_attrmap_store[0]; }
#endif
