// env/osobject.cpp - the environment's OSObject: answers from the ghost records of env/osobject.h, records
// every effect.  CBMC mode: the methods of OSObject itself (static binding, -Dvirtual=); native mode: a real
// subclass.  Reads always answer with the pre-call ghost values (a setAttribute made during the call is
// logged but not read back) - stated as an environment limitation in DESIGN.md.
#include "config.h"
#include "OSObject.h"
#include "osobject.h"

#ifdef VP_NATIVE_DYN
class VpOSObject : public OSObject
{
public:
	virtual ~VpOSObject() {}
	virtual bool attributeExists(CK_ATTRIBUTE_TYPE type);
	virtual OSAttribute getAttribute(CK_ATTRIBUTE_TYPE type);
	virtual bool getBooleanValue(CK_ATTRIBUTE_TYPE type, bool val);
	virtual unsigned long getUnsignedLongValue(CK_ATTRIBUTE_TYPE type, unsigned long val);
	virtual ByteString getByteStringValue(CK_ATTRIBUTE_TYPE type);
	virtual CK_ATTRIBUTE_TYPE nextAttributeType(CK_ATTRIBUTE_TYPE type);
	virtual bool setAttribute(CK_ATTRIBUTE_TYPE type, const OSAttribute& attribute);
	virtual bool deleteAttribute(CK_ATTRIBUTE_TYPE type);
	virtual bool isValid();
	virtual bool startTransaction(Access access = ReadWrite);
	virtual bool commitTransaction();
	virtual bool abortTransaction();
	virtual bool destroyObject();
};
#define ENVOBJ VpOSObject
static VpOSObject vp_objs[VP_NOBJ];
OSObject* vp_obj(int k) { return &vp_objs[k]; }
#else
#define ENVOBJ OSObject
static long vp_objstore[VP_NOBJ][2];
OSObject* vp_obj(int k) { return (OSObject*)(void*)&vp_objstore[k][0]; }
#endif

int vp_obj_index(OSObject* p)
{
	if (p == vp_obj(0)) return 0;
	if (p == vp_obj(1)) return 1;
	if (p == vp_obj(2)) return 2;
	return -1;
}

static int bidx(CK_ATTRIBUTE_TYPE t) { return vp_bidx(t); }
static int uidx(CK_ATTRIBUTE_TYPE t) { return vp_uidx(t); }

#define SELF int o = vp_obj_index(this); if (o < 0) o = 0

static bool isOther(int o, CK_ATTRIBUTE_TYPE type)
{
	return bidx(type) < 0 && uidx(type) < 0 && type != CKA_ALLOWED_MECHANISMS &&
	       OBJX(o, OTHER_EXISTS) != 0 && OBJX(o, OTHER_TYPE) == type;
}

static std::set<CK_MECHANISM_TYPE> allowedSet(int o)
{
	std::set<CK_MECHANISM_TYPE> s;
	if (OBJX(o, ALLOWED_N) >= 1) s.insert(OBJX(o, ALLOWED_0));
	if (OBJX(o, ALLOWED_N) >= 2) s.insert(OBJX(o, ALLOWED_1));
	return s;
}

static ByteString otherBytes(int o)
{
	CK_ULONG len = OBJX(o, OTHER_LEN);
	if (len > VP_BS_MAX) len = VP_BS_MAX;
	ByteString v(&vp_in_bytes[o * VP_BS_MAX], len);
	return v;
}

bool ENVOBJ::attributeExists(CK_ATTRIBUTE_TYPE type)
{
#ifndef VP_ENV_ATTRMAP
	// attribute-map valued attributes are not modelled: no environment object has a wrap / unwrap template (a
	// constant answer, so that cbmc prunes the template-merging code of C_WrapKey / C_UnwrapKey instead of executing
	// it symbolically)
	if (type == CKA_WRAP_TEMPLATE || type == CKA_UNWRAP_TEMPLATE) return false;
#endif
	SELF;
	int b = bidx(type);
	if (b >= 0) return vp_in_objb[o * (int)VP_NB + b] % 3 != 0;
	int u = uidx(type);
	if (u >= 0) return vp_in_obju[(o * (int)VP_NU + u) * 2] != 0;
	if (type == CKA_ALLOWED_MECHANISMS) return OBJX(o, ALLOWED_N) != 0;
	return isOther(o, type);
}

bool ENVOBJ::getBooleanValue(CK_ATTRIBUTE_TYPE type, bool val)
{
	SELF;
	int b = bidx(type);
	if (b >= 0) return vp_in_objb[o * (int)VP_NB + b] % 3 == 0 ? val : (vp_in_objb[o * (int)VP_NB + b] % 3 == 2);
	if (isOther(o, type) && OBJX(o, OTHER_KIND) == 1) return OBJX(o, OTHER_ULONG) != 0;
	return val;
}

unsigned long ENVOBJ::getUnsignedLongValue(CK_ATTRIBUTE_TYPE type, unsigned long val)
{
	SELF;
	int u = uidx(type);
	if (u >= 0) return vp_in_obju[(o * (int)VP_NU + u) * 2] ? vp_in_obju[(o * (int)VP_NU + u) * 2 + 1] : val;
	if (isOther(o, type) && OBJX(o, OTHER_KIND) == 2) return OBJX(o, OTHER_ULONG);
	return val;
}

ByteString ENVOBJ::getByteStringValue(CK_ATTRIBUTE_TYPE type)
{
	SELF;
	CNT(VALUE_READS)++;
	if (isOther(o, type) && OBJX(o, OTHER_KIND) == 3) { ByteString v = otherBytes(o); return v; }
	ByteString e;
	return e;
}

OSAttribute ENVOBJ::getAttribute(CK_ATTRIBUTE_TYPE type)
{
	// (named locals throughout: the C++ front end loses constructor calls on temporaries in return statements)
	SELF;
	int b = bidx(type);
	if (b >= 0) { bool v = vp_in_objb[o * (int)VP_NB + b] % 3 == 2; OSAttribute a(v); return a; }
	int u = uidx(type);
	if (u >= 0) { unsigned long v = vp_in_obju[(o * (int)VP_NU + u) * 2 + 1]; OSAttribute a(v); return a; }
	if (type == CKA_ALLOWED_MECHANISMS) { std::set<CK_MECHANISM_TYPE> s = allowedSet(o); OSAttribute a(s); return a; }
	if (isOther(o, type))
	{
#ifdef VP_ENV_OTHER_KIND
		// constant kind (the unit's contract requires the ghost input to agree): cbmc prunes the other kinds
		CK_ULONG k = VP_ENV_OTHER_KIND;
#else
		CK_ULONG k = OBJX(o, OTHER_KIND);
#endif
		if (k == 1) { bool v = OBJX(o, OTHER_ULONG) != 0; OSAttribute a(v); return a; }
		if (k == 2) { unsigned long v = OBJX(o, OTHER_ULONG); OSAttribute a(v); return a; }
		if (k == 4)
		{
			std::set<CK_MECHANISM_TYPE> s;
			if (OBJX(o, OTHER_LEN) >= 1) s.insert(CKM_AES_CBC);
			if (OBJX(o, OTHER_LEN) >= 2) s.insert(CKM_AES_ECB);
			OSAttribute a(s);
			return a;
		}
#ifdef VP_ENV_ATTRMAP
		// attribute-map valued attribute: heap nodes holding OSAttributes cost ~13M SAT variables per call, so
		// only units that are about CKA_WRAP_TEMPLATE / CKA_UNWRAP_TEMPLATE enable it
		if (k == 5)
		{
			std::map<CK_ATTRIBUTE_TYPE,OSAttribute> m;
			if (OBJX(o, OTHER_LEN) >= 1)
			{
				bool t = true;
				OSAttribute e(t);
				m.insert(std::pair<CK_ATTRIBUTE_TYPE,OSAttribute>(CKA_ENCRYPT, e));
			}
			OSAttribute a(m);
			return a;
		}
#endif
		CNT(VALUE_READS)++;
		ByteString bs = otherBytes(o);
		OSAttribute a(bs);
		return a;
	}
	bool f = false;
	OSAttribute a(f);
	return a;
}

#ifdef VP_ENV_NEXT_OTHER
// attribute iteration of an environment object: CKA_CLASS, then the one attribute of arbitrary type (if it exists)
CK_ATTRIBUTE_TYPE ENVOBJ::nextAttributeType(CK_ATTRIBUTE_TYPE type)
{
	SELF;
	if (type == CKA_CLASS && OBJX(o, OTHER_EXISTS) && isOther(o, OBJX(o, OTHER_TYPE))) return OBJX(o, OTHER_TYPE);
	return CKA_CLASS;
}
#else
CK_ATTRIBUTE_TYPE ENVOBJ::nextAttributeType(CK_ATTRIBUTE_TYPE)
{
	return CKA_CLASS;
}
#endif

static void vp_log(CK_ULONG kind, int o, CK_ATTRIBUTE_TYPE type, CK_ULONG val, CK_ULONG prov)
{
	CK_ULONG n = CNT(LOG);
	if (n < VP_LOG_MAX)
	{
		LOGF(n, KIND) = kind; LOGF(n, OBJ) = o; LOGF(n, TYPE) = type; LOGF(n, VAL) = val; LOGF(n, PROV) = prov;
		CNT(LOG) = n + 1;
	}
}

// 1 iff the byte string is what Token::encrypt produced during this call (length and leading bytes)
static CK_ULONG provenance(const ByteString& v)
{
	if (CNT(ENCRYPT) == 0 || !TOK(ENC_OK)) return 0;
	CK_ULONG len = TOK(ENC_LEN);
	if (len > VP_ENC_MAX) len = VP_ENC_MAX;
	if (v.size() != len) return 0;
	const unsigned char* p = v.const_byte_str();
	if (len > 0 && p[0] != vp_in_encbytes[0]) return 0;
	if (len > 1 && p[1] != vp_in_encbytes[1]) return 0;
	if (len > 2 && p[2] != vp_in_encbytes[2]) return 0;
	if (len > 3 && p[len - 1] != vp_in_encbytes[len - 1]) return 0;
	return 1;
}

bool ENVOBJ::setAttribute(CK_ATTRIBUTE_TYPE type, const OSAttribute& attribute)
{
	SELF;
	CNT(SET)++;
	if (attribute.isBooleanAttribute()) vp_log(E_SET_BOOL, o, type, attribute.getBooleanValue() ? 1 : 0, 0);
	else if (attribute.isUnsignedLongAttribute()) vp_log(E_SET_ULONG, o, type, attribute.getUnsignedLongValue(), 0);
	else if (attribute.isByteStringAttribute()) vp_log(E_SET_BYTES, o, type, attribute.getByteStringValue().size(), provenance(attribute.getByteStringValue()));
	else if (attribute.isMechanismTypeSetAttribute()) vp_log(E_SET_MECHSET, o, type, attribute.getMechanismTypeSetValue().size(), 0);
	else vp_log(E_SET_MAP, o, type, 0, 0);
	return OBJX(o, SET_FAILS) == 0;
}

bool ENVOBJ::deleteAttribute(CK_ATTRIBUTE_TYPE type)
{
	SELF;
	CNT(DELETE)++;
	vp_log(E_DELETE_ATTR, o, type, 0, 0);
	return OBJX(o, SET_FAILS) == 0;
}

bool ENVOBJ::isValid()
{
	SELF;
	return OBJX(o, VALID) != 0;
}

bool ENVOBJ::startTransaction(Access)
{
	SELF;
	CNT(TX_START)++;
	vp_log(E_TX_START, o, 0, 0, 0);
	return OBJX(o, TX_FAILS) == 0;
}

bool ENVOBJ::commitTransaction()
{
	SELF;
	CNT(TX_COMMIT)++;
	vp_log(E_TX_COMMIT, o, 0, 0, 0);
	return OBJX(o, TX_FAILS) == 0;
}

bool ENVOBJ::abortTransaction()
{
	SELF;
	CNT(TX_ABORT)++;
	vp_log(E_TX_ABORT, o, 0, 0, 0);
	return true;
}

bool ENVOBJ::destroyObject()
{
	SELF;
	CNT(DESTROY)++;
	vp_log(E_DESTROY, o, 0, 0, 0);
	return OBJX(o, DESTROY_FAILS) == 0;
}
