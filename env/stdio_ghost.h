/* env/stdio_ghost.h - a ghost file behind fread/fwrite/fseek/ftell/...: VP_FILE_MAX bytes, a length, a position,
 * and symbolic failure choices.  Every libc call the real File.cpp makes on its stream goes here. */
#ifndef VP_STDIO_GHOST_H
#define VP_STDIO_GHOST_H
#include "vp.h"
#ifndef VP_FILE_MAX
#define VP_FILE_MAX 64
#endif
enum vp_ff { FF_LEN, FF_POS, FF_WRITE_FAILS /* fwrite writes nothing and reports 0 */, FF_READ_FAILS, FF_EOF, VP_NFF };
VP_C_BEGIN
extern unsigned char vp_in_file[VP_FILE_MAX];    /* initial content (ghost input); fwrite updates it in place */
extern CK_ULONG vp_in_fst[VP_NFF];
extern CK_ULONG vp_g_fio[4];                      /* 0: bytes written, 1: bytes read, 2: fwrite calls, 3: fread calls */
VP_C_END
#define FST(x) vp_in_fst[(int)FF_##x]
#endif
