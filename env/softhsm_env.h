/* env/softhsm_env.h - ghost state of the environment SoftHSM.cpp functions run in (session, handle manager,
 * access matrix by contract).  Shared by contract files (C) and env/softhsm_env.cpp (C++). */
#ifndef VP_ENV_SOFTHSM_H
#define VP_ENV_SOFTHSM_H
#include "osobject.h"
#include "k_access.h"
#include "k_session.h"

enum vp_ses { S_INIT,          /* SoftHSM::isInitialised */
              S_VALID,         /* handleManager->getSession(hSession) != NULL */
              S_OPTYPE,        /* session->getOpType() */
              S_RW,            /* session->isRW() */
              S_TOKEN_NULL,    /* session->getToken() == NULL */
              S_REAUTH,        /* session->getReAuthentication() */
              S_HSESSION,      /* the hSession argument */
              S_HOBJ0, S_HOBJ1,/* handles that denote environment objects 0 and 1; every other handle is invalid */
              S_HARG0, S_HARG1,/* the object-handle arguments the entry is called with */
              S_MECH,          /* pMechanism->mechanism */
              S_MECH_NULL,     /* pMechanism == NULL */
              S_MECH_PERMITTED,/* answer of SoftHSM::isMechanismPermitted (its real body: unit softhsm_mechperm) */
              S_SLOTID,
              S_ALLOW_MULTI, S_ALLOW_SINGLE,
              S_MECH_PARAM_NULL, S_MECH_PARAM_LEN, /* pMechanism->pParameter == NULL / ulParameterLen (the parameter block itself is 16 symbolic bytes) */
              S_HASHALGO,      /* session->getHashAlgo() */
              S_OAEP_RV,       /* answer of SoftHSM::MechParamCheckRSAPKCSOAEP */
              S_NULL_OUT,      /* an output pointer argument is NULL */
              S_OUT_LEN,       /* *pulLen on entry */
              S_TCOUNT,        /* ulCount of the template argument (<= VP_TMPL_MAX) */
              S_NEW_RESOLVES,  /* handleManager->getObject(fresh handle) finds the object just created */
              VP_NSES };
enum vp_sfx { F_SETOPTYPE_N, F_SETOPTYPE_LAST, F_TAIL_N, F_HM_DESTROY_N, F_HM_DESTROY_H, F_MECHPERM_N, F_MECHPERM_OBJ, F_MECHPERM_MECH,
              F_RESETOP_N, F_SESSION_SET_N, F_HR_N, F_HR_STATE, F_HR_TOKEN, F_HR_PRIVATE, F_HW_N, F_HW_STATE, F_HW_TOKEN, F_HW_PRIVATE,
              F_CREATE_N, F_SETREAUTH_N, F_SETREAUTH_LAST, F_OUT_WRITES, VP_NSFX };
#define VP_TMPL_MAX 2
enum vp_tf { TF_TYPE, TF_LEN, TF_VAL, TF_NULL, VP_NTF };   /* template entry: type, ulValueLen, first value byte/ulong, pValue == NULL */
VP_C_BEGIN
extern CK_ULONG vp_in_tmpl[VP_TMPL_MAX * VP_NTF];
extern unsigned char vp_in_mparam[16];
extern CK_ULONG vp_in_ses[VP_NSES];
extern CK_ULONG vp_g_sfx[VP_NSFX];
CK_STATE vpi_getState(void);
CK_RV vpi_haveRead(CK_STATE s, CK_BBOOL t, CK_BBOOL p);
CK_RV vpi_haveWrite(CK_STATE s, CK_BBOOL t, CK_BBOOL p);
CK_RV vpi_tail(void);
VP_C_END
#define SES(x) vp_in_ses[(int)S_##x]
#define SFX(x) vp_g_sfx[(int)F_##x]
#define TMPL(i, f) vp_in_tmpl[(i) * (int)VP_NTF + (int)TF_##f]

#define VP_SES_STATE VP_STATE_OF(TOK(SO), TOK(USER), SES(RW))
#define VP_SES_USER (!TOK(SO) && TOK(USER))       /* the normal user is logged in */
/* index of the environment object a handle denotes, VP_NOBJ if none */
#define VP_OBJ_OF(h) (((h) == SES(HOBJ0)) ? 0 : ((h) == SES(HOBJ1)) ? 1 : VP_NOBJ)

/* "the call had no effect": nothing started, nothing stored, no value read or decrypted, nothing destroyed */
#define VP_NO_EFFECT (SFX(TAIL_N) == 0 && SFX(SETOPTYPE_N) == 0 && SFX(SESSION_SET_N) == 0 && SFX(HM_DESTROY_N) == 0 && \
                      SFX(CREATE_N) == 0 && SFX(RESETOP_N) == 0 && SFX(SETREAUTH_N) == 0 && SFX(OUT_WRITES) == 0 && CNT(VALUE_READS) == 0 && \
                      CNT(SET) == 0 && CNT(DELETE) == 0 && CNT(DESTROY) == 0 && CNT(DECRYPT) == 0 && CNT(ENCRYPT) == 0 && CNT(TX_START) == 0)
#define VP_FRESH_GHOST (VP_NO_EFFECT && SFX(MECHPERM_N) == 0 && SFX(HR_N) == 0 && SFX(HW_N) == 0 && CNT(LOG) == 0 && CNT(TX_COMMIT) == 0 && CNT(TX_ABORT) == 0)
#define VP_SOFTHSM_FRAME VP_ENV_FRAME, __CPROVER_object_whole(vp_g_sfx)
#define VP_HAVOC_SOFTHSM() do { VP_HAVOC_OBJECTS(); __CPROVER_havoc_object(vp_in_ses); __CPROVER_havoc_object(vp_in_tmpl); __CPROVER_havoc_object(vp_in_mparam); } while (0)

/* the callee contracts every SoftHSM.cpp unit relies on; bodies are the canonical implementations (used by the
 * native twin and in harness mode; under --dfcc the calls are replaced by the contract text) */
#define VP_SOFTHSM_CALLEE_CONTRACTS \
  CK_STATE vpi_getState(void) K_GETSTATE(TOK(SO), TOK(USER), SES(RW)) { return VP_SES_STATE; } \
  CK_RV vpi_haveRead(CK_STATE s, CK_BBOOL t, CK_BBOOL p) K_HAVEREAD(s, t, p) \
  { return (p && !VP_USER_STATE(s)) ? CKR_USER_NOT_LOGGED_IN : (s <= CKS_RW_SO_FUNCTIONS ? CKR_OK : CKR_GENERAL_ERROR); } \
  CK_RV vpi_haveWrite(CK_STATE s, CK_BBOOL t, CK_BBOOL p) K_HAVEWRITE(s, t, p) \
  { return (t && !VP_RW_STATE(s)) ? CKR_SESSION_READ_ONLY : (p && !VP_USER_STATE(s)) ? CKR_USER_NOT_LOGGED_IN : (s <= CKS_RW_SO_FUNCTIONS ? CKR_OK : CKR_GENERAL_ERROR); } \
  CK_RV vpi_tail(void) __CPROVER_ensures(1) __CPROVER_assigns() { return CKR_OK; }
#ifdef __cplusplus
class Session; class Token; class Slot; class HandleManager;
CK_RV vp_tail();
Session* vp_session(); Token* vp_token(); Slot* vp_slot(); HandleManager* vp_hm();
/* the SoftHSM instance an entry is called on: raw storage local to the entry (writable under the frame check);
 * only the fields set here are read by the functions under contract */
#define VP_MK_HSM() long hsm_store[(sizeof(SoftHSM) + 7) / 8 + 1]; SoftHSM* hsm = (SoftHSM*)(void*)&hsm_store[0]; \
	hsm->isInitialised = SES(INIT) != 0; hsm->handleManager = vp_hm()
#define VP_MK_MECH() CK_MECHANISM mech; unsigned char mparam[16]; memcpy(mparam, vp_in_mparam, 16); mech.mechanism = SES(MECH); \
	mech.pParameter = SES(MECH_PARAM_NULL) ? NULL_PTR : (CK_VOID_PTR)&mparam[0]; mech.ulParameterLen = SES(MECH_PARAM_LEN); \
	CK_MECHANISM_PTR pMech = SES(MECH_NULL) ? (CK_MECHANISM_PTR)0 : &mech
/* the template argument: VP_TMPL_MAX entries, each value an 8-byte cell holding TF_VAL */
#define VP_MK_TMPL() CK_ATTRIBUTE tmpl[VP_TMPL_MAX]; CK_ULONG tvals[VP_TMPL_MAX]; \
	for (int ti = 0; ti < VP_TMPL_MAX; ti++) { tvals[ti] = TMPL(ti, VAL); tmpl[ti].type = TMPL(ti, TYPE); tmpl[ti].ulValueLen = TMPL(ti, LEN); \
		tmpl[ti].pValue = TMPL(ti, NULL) ? NULL_PTR : (CK_VOID_PTR)&tvals[ti]; }
#endif
#endif
