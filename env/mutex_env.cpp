// env/mutex_env.cpp - locking is a no-op in sequential proofs (thread schedules are property C18, not claimed)
#include "config.h"
#include "MutexFactory.h"
static long vp_mf_store[8];
MutexFactory* MutexFactory::i() { return (MutexFactory*)(void*)&vp_mf_store[0]; }
static long vp_mutex_store[4];
// (non-NULL: SessionObject's constructor treats a NULL mutex as a failed construction)
Mutex* MutexFactory::getMutex() { return (Mutex*)(void*)&vp_mutex_store[0]; }
void MutexFactory::recycleMutex(Mutex*) {}
MutexLocker::MutexLocker(Mutex* inMutex) { mutex = inMutex; }
MutexLocker::~MutexLocker() {}
