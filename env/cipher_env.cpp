// env/cipher_env.cpp - see cipher_env.h
#include "config.h"
#include "Session.h"
#include "SymmetricAlgorithm.h"
#include "cipher_env.h"

static long vp_cipher_store[(sizeof(SymmetricAlgorithm) + 7) / 8 + 1];
SymmetricAlgorithm* Session::getSymmetricCryptoOp() { return CIP(NULL) ? (SymmetricAlgorithm*)0 : (SymmetricAlgorithm*)(void*)&vp_cipher_store[0]; }

size_t SymmetricAlgorithm::getBlockSize() const { return CIP_BS; }
unsigned long SymmetricAlgorithm::getBufferSize() { return CIP(BUFSIZE); }
size_t SymmetricAlgorithm::getTagBytes() { return CIP(TAGBYTES); }
bool SymmetricAlgorithm::isBlockCipher() { return CIP(ISBLOCK) != 0; }
bool SymmetricAlgorithm::isStreamCipher() { return CIP(ISBLOCK) == 0; }
bool SymmetricAlgorithm::getPaddingMode() { return CIP(PADDING) != 0; }
bool SymmetricAlgorithm::checkMaximumBytes(unsigned long) { return CIP(MAXOK) != 0; }

static bool emit(CK_ULONG ok, CK_ULONG len, int which, ByteString& out)
{
	if (!ok) return false;
	if (len > VP_CIP_OUT_MAX) len = VP_CIP_OUT_MAX;
	ByteString v(&vp_in_cipout[which * VP_CIP_OUT_MAX], len);
	out = v;
	return true;
}
bool SymmetricAlgorithm::encryptUpdate(const ByteString&, ByteString& out) { CFX(UPD_N)++; return emit(CIP(UPD_OK), CIP(UPD_LEN), 0, out); }
bool SymmetricAlgorithm::encryptFinal(ByteString& out) { CFX(FIN_N)++; return emit(CIP(FIN_OK), CIP(FIN_LEN), 1, out); }
bool SymmetricAlgorithm::decryptUpdate(const ByteString&, ByteString& out) { CFX(UPD_N)++; return emit(CIP(UPD_OK), CIP(UPD_LEN), 0, out); }
bool SymmetricAlgorithm::decryptFinal(ByteString& out) { CFX(FIN_N)++; return emit(CIP(FIN_OK), CIP(FIN_LEN), 1, out); }
