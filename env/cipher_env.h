/* env/cipher_env.h - ghost symmetric cipher behind Session::getSymmetricCryptoOp() (assumed contract of the
 * OpenSSL-backed SymmetricAlgorithm: symbolic sizes, symbolic success, output length chosen by the environment) */
#ifndef VP_ENV_CIPHER_H
#define VP_ENV_CIPHER_H
#include "softhsm_env.h"
enum vp_cip { C_NULL,       /* session->getSymmetricCryptoOp() == NULL */
              C_BUFSIZE,    /* getBufferSize(): bytes buffered, not yet emitted */
              C_BLOCK16,    /* getBlockSize(): 16 if set, else 8 (AES / DES) */
              C_TAGBYTES,   /* getTagBytes() */
              C_ISBLOCK,    /* isBlockCipher() (CBC/ECB); otherwise stream (CTR/GCM) */
              C_PADDING,    /* getPaddingMode() */
              C_MAXOK,      /* checkMaximumBytes() */
              C_UPD_OK, C_UPD_LEN,   /* encrypt/decryptUpdate: success, size of what it emits */
              C_FIN_OK, C_FIN_LEN,   /* encrypt/decryptFinal: success, size of what it emits */
              VP_NCIP };
enum vp_cfx { X_UPD_N, X_FIN_N, VP_NCFX };
#define VP_CIP_OUT_MAX 16
VP_C_BEGIN
extern CK_ULONG vp_in_cip[VP_NCIP];
extern CK_ULONG vp_g_cfx[VP_NCFX];
extern unsigned char vp_in_cipout[2 * VP_CIP_OUT_MAX];
VP_C_END
#define CIP(x) vp_in_cip[(int)C_##x]
#define CFX(x) vp_g_cfx[(int)X_##x]
#define CIP_BS (CIP(BLOCK16) ? 16UL : 8UL)
#define VP_CIPHER_FRAME __CPROVER_object_whole(vp_g_cfx)
#define VP_HAVOC_CIPHER() do { __CPROVER_havoc_object(vp_in_cip); __CPROVER_havoc_object(vp_in_cipout); } while (0)
#endif
