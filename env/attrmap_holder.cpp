// env/attrmap_holder.cpp - definitions for normalisation N11 (see engine/vp.py): the attribute-map member of
// OSAttribute behind a type-erased, share-on-copy handle.  CBMC mode only; the native twin uses the real header.
#include "vp.h"
#ifndef VP_NATIVE_DYN
#include "config.h"
#include "OSAttribute.h"

typedef std::map<CK_ATTRIBUTE_TYPE,OSAttribute> vp_attrmap;

vp_attrmap_holder::vp_attrmap_holder() { p = 0; }

vp_attrmap_holder& vp_attrmap_holder::operator=(const vp_attrmap& m)
{
	p = new vp_attrmap(m);
	return *this;
}

vp_attrmap& vp_attrmap_holder::get() const
{
	static vp_attrmap* empty = 0;
	if (p == 0)
	{
		if (empty == 0) empty = new vp_attrmap();
		return *empty;
	}
	return *(vp_attrmap*)p;
}
#endif
