#include <stdio.h>
#include "stdio_ghost.h"
unsigned char vp_in_file[VP_FILE_MAX];
CK_ULONG vp_in_fst[VP_NFF];
CK_ULONG vp_g_fio[4];

/* complete items only (File.cpp always uses size 1): reads min(n, bytes left) */
size_t fread(void *ptr, size_t size, size_t nmemb, FILE *stream)
{
  (void)stream;
  vp_g_fio[3]++;
  if (FST(READ_FAILS) || size != 1) return 0;
  CK_ULONG left = FST(POS) < FST(LEN) ? FST(LEN) - FST(POS) : 0;
  CK_ULONG n = nmemb < left ? nmemb : left;
  for (CK_ULONG i = 0; i < VP_FILE_MAX; i++)
    if (i < n) ((unsigned char *)ptr)[i] = vp_in_file[FST(POS) + i];
  FST(POS) += n;
  vp_g_fio[1] += n;
  if (n < nmemb) FST(EOF) = 1;
  return n;
}

size_t fwrite(const void *ptr, size_t size, size_t nmemb, FILE *stream)
{
  (void)stream;
  vp_g_fio[2]++;
  if (FST(WRITE_FAILS) || size != 1) return 0;
  CK_ULONG room = FST(POS) < VP_FILE_MAX ? VP_FILE_MAX - FST(POS) : 0;
  CK_ULONG n = nmemb < room ? nmemb : room;        /* a full ghost disk: short write */
  for (CK_ULONG i = 0; i < VP_FILE_MAX; i++)
    if (i < n) vp_in_file[FST(POS) + i] = ((const unsigned char *)ptr)[i];
  FST(POS) += n;
  if (FST(POS) > FST(LEN)) FST(LEN) = FST(POS);
  vp_g_fio[0] += n;
  return n;
}

int feof(FILE *stream) { (void)stream; return FST(EOF) != 0; }
void rewind(FILE *stream) { (void)stream; FST(POS) = 0; FST(EOF) = 0; }
long ftell(FILE *stream) { (void)stream; return (long)FST(POS); }
int fseek(FILE *stream, long off, int whence)
{
  (void)stream;
  long base = whence == SEEK_SET ? 0 : whence == SEEK_CUR ? (long)FST(POS) : (long)FST(LEN);
  if (base + off < 0) return -1;
  FST(POS) = (CK_ULONG)(base + off); FST(EOF) = 0;
  return 0;
}
int fflush(FILE *stream) { (void)stream; return 0; }
