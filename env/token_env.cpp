// env/token_env.cpp - the environment's Token: login flags and the attribute (de)cipher are ghost inputs.
// Token::encrypt/decrypt's real bodies are units of their own (units/token, units/sdm).
#include "config.h"
#include "Token.h"
#include "osobject.h"

bool Token::isSOLoggedIn() { return TOK(SO) != 0; }
bool Token::isUserLoggedIn() { return TOK(USER) != 0; }

bool Token::encrypt(const ByteString& plaintext, ByteString& encrypted)
{
	CNT(ENCRYPT)++;
	if (!TOK(ENC_OK)) return false;
	CK_ULONG len = TOK(ENC_LEN);
	if (len > VP_ENC_MAX) len = VP_ENC_MAX;
	ByteString v(vp_in_encbytes, len);
	encrypted = v;
	return true;
}

bool Token::decrypt(const ByteString& encrypted, ByteString& plaintext)
{
	CNT(DECRYPT)++;
	if (!TOK(DEC_OK)) return false;
	CK_ULONG len = TOK(DEC_LEN);
	if (len > VP_BS_MAX) len = VP_BS_MAX;
	ByteString v(vp_in_decbytes, len);
	plaintext = v;
	return true;
}
