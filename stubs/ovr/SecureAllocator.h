#ifndef VIH_SECALLOC_H
#define VIH_SECALLOC_H
#include <stdlib.h>
#include <string.h>
#include "config.h"
#include "log.h"
template<class T> class SecureAllocator { };
#endif
