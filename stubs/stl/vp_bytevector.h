/* byte-vector specialisation shared by stubs/stl/vector and stubs/stl_array/vector (included inside namespace std) */
template<class A> class vector<unsigned char, A> {
public:
  typedef unsigned char* iterator; typedef const unsigned char* const_iterator; typedef size_t size_type; typedef unsigned char value_type;
  /* inline storage of fixed capacity (no heap object of symbolic size: those make the SAT instances explode).
   * Consequence, stated in DESIGN.md: an access through a raw pointer beyond size() but within the capacity is
   * not flagged; accesses through operator[] are checked against size(). */
  unsigned char d[VP_BYTES_MAX]; size_t n;
  vector():n(0){}
  vector(size_t k):n(0){ resize(k); }
  vector(const vector& o):n(0){ assign_from(o); }
  ~vector(){ }
  vector& operator=(const vector& o){ if (this != &o) assign_from(o); return *this; }
  void assign_from(const vector& o){
#ifndef VP_BYTES_SIZEONLY
    for (size_t i = 0; i < VP_BYTES_MAX; i++) d[i] = o.d[i];
#endif
    n = o.n; }
  size_t size() const { return n; }
  bool empty() const { return n==0; }
  /* sizes are capped at VP_BYTES_MAX by assumption (bounded byte strings, stated per unit); with
   * -DVP_ALLOC_CHECK the cap is an obligation instead: a request the process cannot satisfy throws
   * std::length_error / bad_alloc in the real program, which the C_* barrier turns into exit() (C17) */
  void resize(size_t k){
#ifdef VP_ALLOC_CHECK
    __CPROVER_assert(k <= VP_BYTES_MAX, "VP_ALLOC byte-vector resize within the bytes available (larger = input-controlled allocation)");
#endif
    __CPROVER_assume(k <= VP_BYTES_MAX);
#ifndef VP_BYTES_SIZEONLY
    for (size_t i = 0; i < VP_BYTES_MAX; i++) if (i >= n && i < k) d[i] = 0;
#endif
    n = k; }
  void clear(){ n = 0; }
  void push_back(const unsigned char& v){ resize(n+1); d[n-1]=v; }
  unsigned char& operator[](size_t i){ __CPROVER_assert(i < n || (i == 0 && n == 0), "byte vector index within size()"); return d[i]; }
  const unsigned char& operator[](size_t i) const { __CPROVER_assert(i < n || (i == 0 && n == 0), "byte vector index within size()"); return d[i]; }
  iterator begin(){ return &d[0]; } iterator end(){ return &d[0]+n; }
  const_iterator begin() const { return &d[0]; } const_iterator end() const { return &d[0]+n; }
};
