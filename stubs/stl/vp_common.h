#ifndef VP_COMMON_H
#define VP_COMMON_H
#include <stddef.h>
#include <stdlib.h>
#include <string.h>
namespace std { typedef ::size_t size_t; typedef ::ptrdiff_t ptrdiff_t;
template<class A, class B> struct pair { A first; B second; pair():first(),second(){} pair(const A&a,const B&b):first(a),second(b){} template<class U,class W> pair(const U&a,const W&b):first(a),second(b){} };
template<class A, class B> pair<A,B> make_pair(A a, B b) { return pair<A,B>(a,b); }
template<class T> struct allocator {};
template<class T> struct less {};
}
#endif
